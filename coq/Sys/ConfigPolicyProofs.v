(* Proofs about the circuit-config policy model (C28). *)
From V.Base Require Import Common.
From V.Generated Require Import Constants.
From V.Sys Require Import ConfigPolicy.

(* ---------------------------------------------------------------- generic helpers *)

Lemma guard_ok_iff (b : bool) (code : Z) : guard b code = Ok tt <-> b = true.
Proof. destruct b; cbn; split; intro H; try reflexivity; discriminate H. Qed.

Lemma bind_unit_ok_iff (m : res unit) (k : res unit) :
  (_ <-? m ;; k) = Ok tt <-> m = Ok tt /\ k = Ok tt.
Proof.
  destruct m as [[]|c]; cbn [rbind]; split.
  - intro H; split; [reflexivity|exact H].
  - intros [_ H]; exact H.
  - intro H; discriminate H.
  - intros [H _]; discriminate H.
Qed.

Lemma guard_bind_ok_iff (b : bool) (code : Z) (k : res unit) :
  (_ <-? guard b code ;; k) = Ok tt <-> b = true /\ k = Ok tt.
Proof. rewrite bind_unit_ok_iff, guard_ok_iff. reflexivity. Qed.

(* ---------------------------------------------------------------- leading_zeros / log2_ceil *)

Lemma bitlen_log2 (x : Z) : 0 < x -> bitlen x = Z.log2 x + 1.
Proof.
  intro Hx. destruct x as [|q|q]; try lia.
  destruct q as [q|q|]; cbn [bitlen Z.log2 Pos.size]; lia.
Qed.

Lemma bitlen_range (x : Z) : 0 <= x < two64 -> 0 <= bitlen x <= 64.
Proof.
  intros [H0 H1].
  destruct (Z.eq_dec x 0) as [->|Hn]; [cbn; lia|].
  rewrite bitlen_log2 by lia.
  pose proof (Z.log2_nonneg x) as Hl.
  assert (Hlt : Z.log2 x < 64).
  { apply Z.log2_lt_pow2; [lia|]. unfold two64 in H1. change (2 ^ 64) with 18446744073709551616. lia. }
  lia.
Qed.

(* leading_zeros really is a count in 0..64 on u64 inputs *)
Lemma leading_zeros64_range (x : Z) : 0 <= x < two64 -> 0 <= leading_zeros64 x <= 64.
Proof. intro H. unfold leading_zeros64. pose proof (bitlen_range x H). lia. Qed.

(* on n >= 1 the machine computation is ceil(log2 n) (Coq's Z.log2_up), with no wrap *)
Lemma log2_ceil_is_log2_up (n : Z) : 1 <= n < two64 -> log2_ceil n = Z.log2_up n.
Proof.
  intros [H1 H2]. unfold log2_ceil, leading_zeros64, wrap64.
  rewrite Z.mod_small by lia.
  destruct (Z.eq_dec n 1) as [->|Hn]; [reflexivity|].
  rewrite bitlen_log2 by lia.
  rewrite Z.log2_up_eqn by lia. replace (Z.pred n) with (n - 1) by (unfold Z.pred; lia). unfold Z.succ. lia.
Qed.

(* ceil(log2 n) <= k  <->  n <= 2^k : the defining property of the ceiling of the logarithm *)
Lemma log2_ceil_le_iff (n k : Z) : 1 <= n < two64 -> 0 <= k -> (log2_ceil n <= k <-> n <= 2 ^ k).
Proof.
  intros Hn Hk. rewrite log2_ceil_is_log2_up by exact Hn.
  destruct (Z.eq_dec n 1) as [->|Hne].
  - change (Z.log2_up 1) with 0. pose proof (Z.pow_pos_nonneg 2 k ltac:(lia) Hk). lia.
  - split; intro H.
    + pose proof (Z.log2_up_spec n ltac:(lia)) as [_ Hs].
      pose proof (Z.pow_le_mono_r 2 (Z.log2_up n) k ltac:(lia) H). lia.
    + apply Z.log2_up_le_pow2; lia.
Qed.

Lemma log2_ceil_zero_wraps : log2_ceil 0 = 64.
Proof. reflexivity. Qed.

(* ---------------------------------------------------------------- validate_circuit_config *)

Definition usize (x : Z) : Prop := 0 <= x < two64.

Definition usize_config (c : Config) : Prop :=
  usize (c_num_wires c) /\ usize (c_num_routed_wires c) /\ usize (c_security_bits c) /\
  usize (c_num_challenges c) /\ usize (c_max_quotient_degree_factor c) /\ usize (c_rate_bits c) /\
  usize (c_cap_height c) /\ usize (c_num_query_rounds c).

(* the policy with the thresholds by name and the model's own log2_ceil; no range hypothesis *)
Lemma validate_ok_iff_raw (c : Config) :
  validate_circuit_config c = Ok tt <->
  0 < c_num_challenges c /\ 0 < c_security_bits c /\ 0 < c_num_query_rounds c /\
  MIN_NUM_WIRES <= c_num_wires c /\
  MIN_NUM_ROUTED_WIRES <= c_num_routed_wires c /\ c_num_routed_wires c <= c_num_wires c /\
  MIN_MAX_QUOTIENT_DEGREE_FACTOR <= c_max_quotient_degree_factor c /\
  c_rate_bits c <= MAX_RATE_BITS /\ c_cap_height c <= MAX_CAP_HEIGHT /\
  log2_ceil (c_max_quotient_degree_factor c) <= c_rate_bits c.
Proof.
  unfold validate_circuit_config.
  repeat rewrite guard_bind_ok_iff.
  rewrite !Z.ltb_lt, !Z.leb_le.
  split.
  - intros (H1 & H2 & H3 & H4 & H5 & H6 & H7 & H8 & H9 & H10 & _). repeat split; assumption.
  - intros (H1 & H2 & H3 & H4 & H5 & H6 & H7 & H8 & H9 & H10). repeat split; assumption.
Qed.

(* C28, sentence 1 *)
Lemma validate_exact (c : Config) :
  usize_config c ->
  (validate_circuit_config c = Ok tt <->
   0 < c_num_challenges c /\ 0 < c_security_bits c /\ 0 < c_num_query_rounds c /\
   135 <= c_num_wires c /\
   37 <= c_num_routed_wires c /\ c_num_routed_wires c <= c_num_wires c /\
   7 <= c_max_quotient_degree_factor c /\
   c_rate_bits c <= 8 /\ c_cap_height c <= 8 /\
   Z.log2_up (c_max_quotient_degree_factor c) <= c_rate_bits c).
Proof.
  intros (_ & _ & _ & _ & Hq & _ & _ & _).
  rewrite validate_ok_iff_raw.
  change MIN_NUM_WIRES with 135. change MIN_NUM_ROUTED_WIRES with 37.
  change MIN_MAX_QUOTIENT_DEGREE_FACTOR with 7. change MAX_RATE_BITS with 8. change MAX_CAP_HEIGHT with 8.
  unfold usize in Hq.
  split.
  - intros (H1 & H2 & H3 & H4 & H5 & H6 & H7 & H8 & H9 & H10).
    rewrite log2_ceil_is_log2_up in H10 by lia. repeat split; assumption.
  - intros (H1 & H2 & H3 & H4 & H5 & H6 & H7 & H8 & H9 & H10).
    rewrite log2_ceil_is_log2_up by lia. repeat split; assumption.
Qed.

(* everything that is not accepted is an error (never the panic class) *)
Lemma validate_total (c : Config) :
  validate_circuit_config c = Ok tt \/ exists code, validate_circuit_config c = Err code /\ 1 <= code <= 10.
Proof.
  unfold validate_circuit_config.
  repeat match goal with
  | |- context [guard ?b ?code] =>
      destruct b; cbn [guard rbind];
      [| right; eexists; split; [reflexivity | lia]]
  end.
  left; reflexivity.
Qed.

(* a build with overflow checks behaves identically: the subtraction in log2_ceil is only reached
   with max_quotient_degree_factor >= 7 *)
Lemma validate_checked_eq (c : Config) :
  usize_config c -> validate_circuit_config_checked c = validate_circuit_config c.
Proof.
  intros (_ & _ & _ & _ & Hq & _ & _ & _). unfold usize in Hq.
  unfold validate_circuit_config_checked, validate_circuit_config.
  do 9 (match goal with
        | |- rbind (guard ?b _) _ = rbind (guard ?b _) _ => destruct b eqn:?; cbn [guard rbind]; [|reflexivity]
        end).
  match goal with
  | E7 : (MIN_MAX_QUOTIENT_DEGREE_FACTOR <=? _) = true |- _ =>
      apply Z.leb_le in E7; change MIN_MAX_QUOTIENT_DEGREE_FACTOR with 7 in E7
  end.
  unfold log2_ceil_checked, log2_ceil, wrap64.
  replace (c_max_quotient_degree_factor c =? 0) with false by (symmetry; apply Z.eqb_neq; lia).
  rewrite Z.mod_small by lia. reflexivity.
Qed.

Lemma validate_checked_no_panic (c : Config) :
  usize_config c -> validate_circuit_config_checked c <> Err PANIC.
Proof.
  intros Hc. rewrite validate_checked_eq by exact Hc.
  destruct (validate_total c) as [H | (code & H & Hr)]; rewrite H; [discriminate|].
  unfold PANIC. intro E; inversion E; lia.
Qed.

Lemma validate_checked_same_and_no_panic (c : Config) :
  usize_config c ->
  validate_circuit_config_checked c = validate_circuit_config c /\ validate_circuit_config_checked c <> Err PANIC.
Proof. intro H. split; [exact (validate_checked_eq c H) | exact (validate_checked_no_panic c H)]. Qed.

(* every constructor: a config failing the policy is an error, not a panic, not a build *)
Lemma constructor_rejects (which : Z) (c : Config) :
  validate_circuit_config c <> Ok tt ->
  exists code, constructor_result which c = Err code /\ code <> PANIC.
Proof.
  intro Hn. unfold constructor_result.
  destruct (validate_total c) as [H | (code & H & Hr)]; [contradiction|].
  exists code. split; [exact H|unfold PANIC; lia].
Qed.

Lemma constructor_accepts_only_policy (which : Z) (c : Config) :
  constructor_result which c = Ok tt <-> validate_circuit_config c = Ok tt.
Proof. reflexivity. Qed.

(* ---------------------------------------------------------------- canonical configs *)

Lemma canonical_configs_pass : Forall (fun c => validate_circuit_config c = Ok tt) canonical_configs.
Proof. repeat constructor. Qed.

(* ---------------------------------------------------------------- CLI *)

Definition usize_opt (o : option Z) : Prop := match o with Some v => usize v | None => True end.

Definition usize_args (a : Args) : Prop :=
  usize_opt (a_rate_bits a) /\ usize_opt (a_cap_height a) /\ usize_opt (a_num_wires a) /\
  usize_opt (a_num_routed_wires a) /\ usize_opt (a_max_quotient_degree_factor a) /\
  usize_opt (a_num_query_rounds a) /\ usize_opt (a_security_bits a) /\ usize_opt (a_num_challenges a).

Lemma check_opt_ok_iff (o : option Z) (ok : Z -> bool) (code : Z) :
  check_opt o ok code = Ok tt <-> (forall v, o = Some v -> ok v = true).
Proof.
  destruct o as [v|]; cbn [check_opt].
  - rewrite guard_ok_iff. split; [intros H v' E; inversion E; subst; exact H | intro H; apply H; reflexivity].
  - split; [intros _ v E; discriminate E | reflexivity].
Qed.

Lemma some_pos (o : option Z) : usize_opt o -> is_some_zero o = false -> forall v, o = Some v -> 0 < v.
Proof.
  intros Hr Hz v ->. cbn in *. unfold usize in Hr. apply Z.eqb_neq in Hz. lia.
Qed.

Lemma div_ceil_84_pos (v : Z) : 1 <= v <= 8 -> 0 < div_ceil 84 (Z.max v 1).
Proof.
  intro H.
  assert (Hc : v = 1 \/ v = 2 \/ v = 3 \/ v = 4 \/ v = 5 \/ v = 6 \/ v = 7 \/ v = 8) by lia.
  repeat (destruct Hc as [-> | Hc]; [reflexivity|]). subst v. reflexivity.
Qed.

(* C28, sentence 3 *)
Lemma cli_implies_policy (a : Args) :
  usize_args a -> cli_validate a = Ok tt -> validate_circuit_config (cli_build a) = Ok tt.
Proof.
  intros (Rr & Rc & Rw & Rrw & Rq & Rqr & Rs & Rn) H.
  unfold cli_validate in H.
  repeat rewrite bind_unit_ok_iff in H.
  destruct H as (H20 & H21 & H22 & H23 & H24 & H25 & H26 & H27 & H28 & _).
  rewrite guard_ok_iff, negb_true_iff in H20.
  cbn [existsb] in H20. repeat rewrite orb_false_iff in H20.
  destruct H20 as (Zr & Zc & Zw & Zrw & Zq & Zqr & Zs & Zn & _).
  rewrite check_opt_ok_iff in H21, H22, H24, H25, H26, H27.
  rewrite guard_ok_iff, negb_true_iff, Z.ltb_ge in H23.
  pose proof (some_pos _ Rr Zr) as Pr. pose proof (some_pos _ Rq Zq) as Pq.
  pose proof (some_pos _ Rqr Zqr) as Pqr. pose proof (some_pos _ Rs Zs) as Ps.
  pose proof (some_pos _ Rn Zn) as Pn.
  apply validate_ok_iff_raw.
  unfold cli_build, baseline, cfg_private_batch in *.
  cbn [c_num_wires c_num_routed_wires c_security_bits c_num_challenges c_zero_knowledge
       c_max_quotient_degree_factor c_rate_bits c_cap_height c_num_query_rounds] in *.
  change CFG_PRIV_NUM_WIRES with 135 in *. change CFG_PRIV_NUM_ROUTED_WIRES with 60 in *.
  change CFG_PRIV_SECURITY_BITS with 100 in *. change CFG_PRIV_NUM_CHALLENGES with 2 in *.
  change CFG_PRIV_MAX_QUOTIENT_DEGREE_FACTOR with 8 in *. change CFG_PRIV_RATE_BITS with 3 in *.
  change CFG_PRIV_CAP_HEIGHT with 4 in *. change CFG_PRIV_NUM_QUERY_ROUNDS with 28 in *.
  change MIN_NUM_WIRES with 135 in *. change MIN_NUM_ROUTED_WIRES with 37 in *.
  change MIN_MAX_QUOTIENT_DEGREE_FACTOR with 7 in *. change MAX_RATE_BITS with 8 in *.
  change MAX_CAP_HEIGHT with 8 in *.
  change (wrap64 (3 * 28)) with 84.
  (* facts per option *)
  assert (Fr : forall v, a_rate_bits a = Some v -> 1 <= v <= 8).
  { intros v E. specialize (H21 v E). specialize (Pr v E). apply Z.leb_le in H21. lia. }
  assert (Fc : forall v, a_cap_height a = Some v -> v <= 8).
  { intros v E. specialize (H22 v E). apply Z.leb_le in H22. lia. }
  assert (Fw : forall v, a_num_wires a = Some v -> 135 <= v).
  { intros v E. specialize (H24 v E). rewrite negb_true_iff, Z.ltb_ge in H24. lia. }
  assert (Fq : forall v, a_max_quotient_degree_factor a = Some v -> 7 <= v).
  { intros v E. specialize (H25 v E). rewrite negb_true_iff, Z.ltb_ge in H25. lia. }
  assert (Frw : forall v, a_num_routed_wires a = Some v -> 37 <= v /\ v <= unwrap_or (a_num_wires a) 135).
  { intros v E. specialize (H26 v E). specialize (H27 v E).
    rewrite negb_true_iff, Z.ltb_ge in H26, H27. lia. }
  clear H21 H22 H24 H25 H26 H27 H28.
  repeat split.
  - (* num_challenges *) destruct (a_num_challenges a) as [v|]; cbn [unwrap_or]; [apply Pn; reflexivity | lia].
  - (* security_bits *) destruct (a_security_bits a) as [v|]; cbn [unwrap_or]; [apply Ps; reflexivity | lia].
  - (* num_query_rounds *)
    destruct (a_num_query_rounds a) as [v|]; cbn [unwrap_or]; [apply Pqr; reflexivity|].
    destruct (a_rate_bits a) as [v|]; [apply div_ceil_84_pos; apply Fr; reflexivity | lia].
  - (* num_wires *) destruct (a_num_wires a) as [v|]; cbn [unwrap_or]; [apply Fw; reflexivity | lia].
  - (* routed floor *) destruct (a_num_routed_wires a) as [v|]; cbn [unwrap_or]; [apply Frw; reflexivity | lia].
  - (* routed <= wires *)
    destruct (a_num_routed_wires a) as [v|]; cbn [unwrap_or].
    + apply (Frw v eq_refl).
    + destruct (a_num_wires a) as [w|]; cbn [unwrap_or]; [specialize (Fw w eq_refl); lia | lia].
  - (* quotient floor *) destruct (a_max_quotient_degree_factor a) as [v|]; cbn [unwrap_or]; [apply Fq; reflexivity | lia].
  - (* rate ceiling *) destruct (a_rate_bits a) as [v|]; cbn [unwrap_or]; [apply Fr; reflexivity | lia].
  - (* cap ceiling *) destruct (a_cap_height a) as [v|]; cbn [unwrap_or]; [apply Fc; reflexivity | lia].
  - (* rate >= ceil(log2 q): the CLI checks the same effective pair; max(q,1) = q since q >= 7 *)
    assert (Hq7 : 7 <= unwrap_or (a_max_quotient_degree_factor a) 8).
    { destruct (a_max_quotient_degree_factor a) as [v|]; cbn [unwrap_or]; [apply Fq; reflexivity | lia]. }
    rewrite Z.max_l in H23 by lia. exact H23.
Qed.

(* the converse fails: the CLI is stricter (security gating), e.g. `--security-bits 90` alone *)
Definition args_none : Args := mkArgs None None None None None None None None None false.
Definition args_security_90 : Args := mkArgs None None None None None None None (Some 90) None false.
Lemma cli_stricter_than_policy :
  cli_validate args_security_90 <> Ok tt /\ validate_circuit_config (cli_build args_security_90) = Ok tt.
Proof. split; [discriminate | reflexivity]. Qed.
