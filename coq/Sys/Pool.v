(* Executable model of the proof pool (C19-C22).
     wormhole/aggregator/src/pool.rs : ProofPool::{new, len, push, evict_settled, evict_older_than,
                                       bucket_stats, snapshot_batch, remove_bucket, parse_metadata}
     wormhole/aggregator/src/public_batch/prover/lib.rs :
                                       preflight_private_batch_proofs, ensure_private_batch_compatible
   A proof is its vector of public inputs (raw u64 inner values of the Goldilocks elements, possibly
   non-canonical) together with the answer of the cryptographic verifier on it ([p_ver]); nothing else
   of a proof is visible to the pool.  Time is a Z (virtual nanoseconds); [Instant] arithmetic is
   written with explicit saturation where the Rust saturates.  [Err (-1)] is the rendering of a Rust
   panic (slice index out of range); PoolProofs shows it is unreachable for well-formed configs.
   This file holds definitions only. *)
From V.Base Require Import Common.
From V.Generated Require Import Constants.

Definition PANIC : Z := -1.

(* ------------------------------------------------------------------ data *)

Definition digest := list Z.           (* BytesDigest as four canonical u64 limbs *)
Definition key := list Z.              (* BatchKey: block hash (4 limbs), asset_id, volume_fee_bps *)

Record proof := mkProof { p_pis : list Z; p_ver : bool }.
Record entry := mkEntry { e_proof : proof; e_nulls : list digest; e_vol : Z; e_at : Z }.
Record bucket := mkBucket { b_proofs : list entry; b_snap : option Z }.

Record config := mkConfig {
  c_max_proofs : Z; c_max_buckets : Z; c_batch : Z; c_budget : Z; c_window : Z;
  c_leaves : Z;       (* inner_num_leaves *)
  c_pi_len : Z }.     (* verifier.common.num_public_inputs *)

Record state := mkState {
  s_buckets : list (key * bucket);     (* BTreeMap<BatchKey, Bucket>; model order = order of creation *)
  s_index : list (digest * key);       (* HashMap<BytesDigest, BatchKey> *)
  s_win_start : Z;                     (* verify_window_started *)
  s_verifs : Z;                        (* verifies_in_window *)
  s_now : Z }.                         (* the clock *)

Inductive op :=
| Push (pr : proof)
| EvictSettled (settled : list digest)
| EvictOlder (max_age : Z)
| Snapshot (k : key)
| RemoveBucket (k : key)
| Advance (dt : Z)
| Stats.

Record stat := mkStat {
  st_key : key; st_num : Z; st_batch : Z; st_oldest : Z; st_volume : Z; st_snap_age : option Z }.

Inductive ret :=
| RPush (r : res key)
| RCount (n : Z)
| RSnap (o : option (list proof))
| RRemoved (l : list proof)
| RStats (l : list stat)
| RUnit.

(* [o_verified]: this step called the cryptographic verifier; [o_restarted]: this step restarted the
   verification window. *)
Record out := mkOut { o_ret : ret; o_verified : bool; o_restarted : bool }.

(* push rejection reasons, in the order of the checks *)
Definition E_FULL : Z := 1.
Definition E_LEN : Z := 2.
Definition E_DUMMY : Z := 3.
Definition E_BUDGET : Z := 4.
Definition E_VERIFY : Z := 5.
Definition E_BUCKETS : Z := 6.
Definition E_DUP : Z := 7.

(* ------------------------------------------------------------------ arithmetic *)

(* GoldilocksField::to_canonical_u64 of a raw inner u64 *)
Definition to_canonical (raw : Z) : Z := if p <=? raw then raw - p else raw.
(* u64::saturating_add *)
Definition sat_add64 (a b : Z) : Z := if a + b <? two64 then a + b else two64 - 1.
(* Instant::saturating_duration_since / duration_since (which saturates as well) *)
Definition sat_sub (a b : Z) : Z := if a <? b then 0 else a - b.

(* ------------------------------------------------------------------ parse_metadata *)

Definition OFF_ASSET : nat := Z.to_nat PR_OUT_ASSET_ID_OFFSET.
Definition OFF_FEE : nat := Z.to_nat PR_OUT_VOLUME_FEE_BPS_OFFSET.
Definition OFF_BH : nat := Z.to_nat PR_OUT_BLOCK_HASH_OFFSET.
Definition HEADER : nat := Z.to_nat PR_OUT_HEADER_LEN.
Definition SLOT : nat := Z.to_nat PR_OUT_EXIT_SLOT_LEN.

(* aggregated_output::pi_len / nullifiers_start / counts *)
Definition pi_len_of (leaves : Z) : Z := LEAF_PI_LEN * leaves + 8.
Definition nullifiers_start (leaves : nat) : nat := (HEADER + (leaves * 2) * SLOT)%nat.

(* pis[i].to_canonical_u64() *)
Definition getc (pis : list Z) (i : nat) : res Z :=
  match nth_error pis i with Some v => Ok (to_canonical v) | None => Err PANIC end.
(* try_4_felts_to_bytes(&pis[a..a+4]): on a 4-element slice only canonicalisation happens *)
Definition slice4 (pis : list Z) (a : nat) : res digest :=
  if (a + 4 <=? length pis)%nat then Ok (map to_canonical (firstn 4 (skipn a pis))) else Err PANIC.

Fixpoint read_nulls (pis : list Z) (start count : nat) : res (list digest) :=
  match count with
  | O => Ok []
  | S c => d <-? slice4 pis start ;; r <-? read_nulls pis (start + 4) c ;; Ok (d :: r)
  end.
Fixpoint read_volume (pis : list Z) (start count : nat) (acc : Z) : res Z :=
  match count with
  | O => Ok acc
  | S c => v <-? getc pis start ;; read_volume pis (start + SLOT) c (sat_add64 acc v)
  end.

(* the (block hash, asset, fee) triple; the public-batch preflight reads the same offsets
   (public_batch::circuit::constants re-exports the aggregated_output constants) *)
Definition read_meta (pis : list Z) : res (digest * Z * Z) :=
  bh <-? slice4 pis OFF_BH ;;
  a <-? getc pis OFF_ASSET ;;
  f <-? getc pis OFF_FEE ;;
  Ok (bh, a, f).

Definition mk_key (m : digest * Z * Z) : key := let '(bh, a, f) := m in bh ++ [a; f].

Definition parse_metadata (cfg : config) (pr : proof) : res (key * list digest * Z) :=
  let pis := p_pis pr in
  _ <-? guard (zlen pis =? c_pi_len cfg) E_LEN ;;
  m <-? read_meta pis ;;
  let n := Z.to_nat (c_leaves cfg) in
  nulls <-? read_nulls pis (nullifiers_start n) n ;;
  vol <-? read_volume pis HEADER (n * 2) 0 ;;
  Ok (mk_key m, nulls, vol).

Definition ZERO_DIGEST : digest := [0; 0; 0; 0].
Definition is_dummy (k : key) : bool := list_eqb (firstn 4 k) ZERO_DIGEST.

(* ------------------------------------------------------------------ containers *)

Fixpoint find_bucket (k : key) (bs : list (key * bucket)) : option bucket :=
  match bs with
  | [] => None
  | (k', b) :: r => if list_eqb k' k then Some b else find_bucket k r
  end.
Definition has_bucket (k : key) (bs : list (key * bucket)) : bool :=
  match find_bucket k bs with Some _ => true | None => false end.

Definition all_entries (bs : list (key * bucket)) : list entry :=
  flat_map (fun kb => b_proofs (snd kb)) bs.
Definition total_len (bs : list (key * bucket)) : Z := zlen (all_entries bs).

(* buckets.entry(key).or_default().proofs.push(e) *)
Fixpoint add_entry (k : key) (e : entry) (bs : list (key * bucket)) : list (key * bucket) :=
  match bs with
  | [] => [(k, mkBucket [e] None)]
  | (k', b) :: r =>
    if list_eqb k' k then (k', mkBucket (b_proofs b ++ [e]) (b_snap b)) :: r
    else (k', b) :: add_entry k e r
  end.

Definition mem (n : digest) (l : list digest) : bool := existsb (list_eqb n) l.

Fixpoint idx_lookup (n : digest) (idx : list (digest * key)) : option key :=
  match idx with
  | [] => None
  | (n', k) :: r => if list_eqb n' n then Some k else idx_lookup n r
  end.
Definition idx_mem (n : digest) (idx : list (digest * key)) : bool :=
  match idx_lookup n idx with Some _ => true | None => false end.
Definition idx_remove_all (ns : list digest) (idx : list (digest * key)) : list (digest * key) :=
  filter (fun nk => negb (mem (fst nk) ns)) idx.
(* HashMap::insert: replaces an existing binding *)
Definition idx_insert (n : digest) (k : key) (idx : list (digest * key)) : list (digest * key) :=
  (n, k) :: idx_remove_all [n] idx.
Definition idx_insert_all (ns : list digest) (k : key) (idx : list (digest * key)) :=
  fold_left (fun i n => idx_insert n k i) ns idx.

(* The three removal paths share one shape: in the selected buckets keep the entries satisfying
   [keep], drop selected buckets that became empty, un-index the nullifiers of the dropped entries. *)
Definition retain_buckets (sel : key -> bool) (keep : entry -> bool) (bs : list (key * bucket)) :=
  flat_map (fun kb =>
    if sel (fst kb) then
      match filter keep (b_proofs (snd kb)) with
      | [] => []
      | ps => [(fst kb, mkBucket ps (b_snap (snd kb)))]
      end
    else [kb]) bs.
Definition removed_entries (sel : key -> bool) (keep : entry -> bool) (bs : list (key * bucket)) :=
  flat_map (fun kb => if sel (fst kb) then filter (fun e => negb (keep e)) (b_proofs (snd kb)) else []) bs.

Definition set_buckets (st : state) (bs : list (key * bucket)) (idx : list (digest * key)) : state :=
  mkState bs idx (s_win_start st) (s_verifs st) (s_now st).
Definition set_budget (st : state) (start verifs : Z) : state :=
  mkState (s_buckets st) (s_index st) start verifs (s_now st).

Definition retain_state (sel : key -> bool) (keep : entry -> bool) (st : state) : state * list entry :=
  let rem := removed_entries sel keep (s_buckets st) in
  (set_buckets st (retain_buckets sel keep (s_buckets st))
               (idx_remove_all (flat_map e_nulls rem) (s_index st)), rem).

(* ------------------------------------------------------------------ operations *)

Definition init (t0 : Z) : state := mkState [] [] t0 0 t0.

Definition reject (st : state) (c : Z) (verified restarted : bool) : state * out :=
  (st, mkOut (RPush (Err c)) verified restarted).

Definition push (cfg : config) (st : state) (pr : proof) : state * out :=
  if total_len (s_buckets st) >=? c_max_proofs cfg then reject st E_FULL false false
  else
    match parse_metadata cfg pr with
    | Err c => reject st c false false
    | Ok (k, nulls, vol) =>
      if is_dummy k then reject st E_DUMMY false false
      else
        (* fixed-window budget: restart once a full window has elapsed *)
        let restart := sat_sub (s_now st) (s_win_start st) >=? c_window cfg in
        let st1 := if restart then set_budget st (s_now st) 0 else st in
        if s_verifs st1 >=? c_budget cfg then reject st1 E_BUDGET false restart
        else
          (* charged before verifying; no overflow: verifs < budget <= usize::MAX *)
          let st2 := set_budget st1 (s_win_start st1) (s_verifs st1 + 1) in
          if negb (p_ver pr) then reject st2 E_VERIFY true restart
          else if negb (has_bucket k (s_buckets st2))
                  && (zlen (s_buckets st2) >=? c_max_buckets cfg) then reject st2 E_BUCKETS true restart
          else if existsb (fun n => idx_mem n (s_index st2)) nulls then reject st2 E_DUP true restart
          else
            (set_buckets st2 (add_entry k (mkEntry pr nulls vol (s_now st2)) (s_buckets st2))
                         (idx_insert_all nulls k (s_index st2)),
             mkOut (RPush (Ok k)) true restart)
    end.

Definition stale (settled : list digest) (e : entry) : bool :=
  existsb (fun n => mem n settled) (e_nulls e).

Definition affected_keys (settled : list digest) (idx : list (digest * key)) : list key :=
  flat_map (fun n => match idx_lookup n idx with Some k => [k] | None => [] end) settled.

Definition evict_settled (st : state) (settled : list digest) : state * list entry :=
  let aff := affected_keys settled (s_index st) in
  retain_state (fun k => existsb (list_eqb k) aff) (fun e => negb (stale settled e)) st.

Definition expired (now max_age : Z) (e : entry) : bool := sat_sub now (e_at e) >? max_age.

Definition evict_older (st : state) (max_age : Z) : state * list entry :=
  retain_state (fun _ => true) (fun e => negb (expired (s_now st) max_age e)) st.

Definition remove_bucket (st : state) (k : key) : state * list proof :=
  match find_bucket k (s_buckets st) with
  | None => (st, [])
  | Some b =>
    (set_buckets st (filter (fun kb => negb (list_eqb (fst kb) k)) (s_buckets st))
                 (idx_remove_all (flat_map e_nulls (b_proofs b)) (s_index st)),
     map e_proof (b_proofs b))
  end.

Fixpoint mark_snapshot (k : key) (t : Z) (bs : list (key * bucket)) : list (key * bucket) :=
  match bs with
  | [] => []
  | (k', b) :: r =>
    if list_eqb k' k then (k', mkBucket (b_proofs b) (Some t)) :: r else (k', b) :: mark_snapshot k t r
  end.

Definition snapshot (cfg : config) (st : state) (k : key) : state * option (list proof) :=
  match find_bucket k (s_buckets st) with
  | None => (st, None)
  | Some b =>
    let n := Z.to_nat (Z.min (zlen (b_proofs b)) (c_batch cfg)) in
    (set_buckets st (mark_snapshot k (s_now st) (s_buckets st)) (s_index st),
     Some (map e_proof (firstn n (b_proofs b))))
  end.

Definition stat_of (cfg : config) (now : Z) (kb : key * bucket) : stat :=
  let ps := b_proofs (snd kb) in
  mkStat (fst kb) (zlen ps) (c_batch cfg)
         (fold_left Z.max (map (fun e => sat_sub now (e_at e)) ps) 0)
         (fold_left sat_add64 (map e_vol ps) 0)
         (option_map (sat_sub now) (b_snap (snd kb))).
Definition stats (cfg : config) (st : state) : list stat := map (stat_of cfg (s_now st)) (s_buckets st).

Definition quiet (r : ret) : out := mkOut r false false.

Definition step (cfg : config) (st : state) (o : op) : state * out :=
  match o with
  | Push pr => push cfg st pr
  | EvictSettled s => let '(st', rem) := evict_settled st s in (st', quiet (RCount (zlen rem)))
  | EvictOlder a => let '(st', rem) := evict_older st a in (st', quiet (RCount (zlen rem)))
  | Snapshot k => let '(st', r) := snapshot cfg st k in (st', quiet (RSnap r))
  | RemoveBucket k => let '(st', r) := remove_bucket st k in (st', quiet (RRemoved r))
  | Advance dt =>
    (mkState (s_buckets st) (s_index st) (s_win_start st) (s_verifs st) (s_now st + Z.max 0 dt), quiet RUnit)
  | Stats => (st, quiet (RStats (stats cfg st)))
  end.

Fixpoint run (cfg : config) (st : state) (ops : list op) : state * list out :=
  match ops with
  | [] => (st, [])
  | o :: r => let '(st1, x) := step cfg st o in let '(st2, xs) := run cfg st1 r in (st2, x :: xs)
  end.

(* ------------------------------------------------------------------ public-batch preflight *)

Definition PF_EMPTY : Z := 1.
Definition PF_TOO_MANY : Z := 2.
Definition PF_LEN : Z := 3.
Definition PF_VERIFY : Z := 4.
Definition PF_BLOCK : Z := 5.
Definition PF_ASSET : Z := 6.
Definition PF_FEE : Z := 7.
Definition PF_ALL_DUMMY : Z := 8.

Fixpoint pf_each (cfg : config) (ps : list proof) : res unit :=
  match ps with
  | [] => Ok tt
  | pr :: r =>
    _ <-? guard (zlen (p_pis pr) =? c_pi_len cfg) PF_LEN ;;
    _ <-? guard (p_ver pr) PF_VERIFY ;;
    pf_each cfg r
  end.

Fixpoint compat (ref : option (digest * Z * Z)) (ms : list (digest * Z * Z)) : res unit :=
  match ms with
  | [] => match ref with None => Err PF_ALL_DUMMY | Some _ => Ok tt end
  | (bh, a, f) :: r =>
    if list_eqb bh ZERO_DIGEST then compat ref r
    else match ref with
         | None => compat (Some (bh, a, f)) r
         | Some (bh0, a0, f0) =>
           if negb (list_eqb bh bh0) then Err PF_BLOCK
           else if negb (a =? a0) then Err PF_ASSET
           else if negb (f =? f0) then Err PF_FEE
           else compat ref r
         end
  end.

Definition preflight (cfg : config) (ps : list proof) : res unit :=
  _ <-? guard (negb (zlen ps =? 0)) PF_EMPTY ;;
  _ <-? guard (zlen ps <=? c_batch cfg) PF_TOO_MANY ;;
  _ <-? pf_each cfg ps ;;
  ms <-? mapM (fun pr => read_meta (p_pis pr)) ps ;;
  compat None ms.

(* ------------------------------------------------------------------ observation encoding (correspondence only) *)

(* lexicographic order on integer lists, and insertion sort: used to canonicalise what comes out of
   the BTreeMap/HashMap on the Rust side and out of the association lists here *)
Fixpoint list_ltb (a b : list Z) : bool :=
  match a, b with
  | [], [] => false
  | [], _ :: _ => true
  | _ :: _, [] => false
  | x :: xs, y :: ys => if x <? y then true else if y <? x then false else list_ltb xs ys
  end.
Fixpoint insert_sorted {A} (f : A -> list Z) (x : A) (l : list A) : list A :=
  match l with
  | [] => [x]
  | y :: r => if list_ltb (f y) (f x) then y :: insert_sorted f x r else x :: l
  end.
Definition sort_by {A} (f : A -> list Z) (l : list A) : list A := fold_right (insert_sorted f) [] l.

Definition enc_opt_age (o : option Z) : list Z := match o with None => [0] | Some a => [1; a] end.

(* the harness puts a per-proof serial number into the (unused by the pool) block-number slot *)
Definition proof_tag (pr : proof) : Z := nth (Z.to_nat PR_OUT_BLOCK_NUMBER_OFFSET) (p_pis pr) (-7).

Definition enc_entry (now : Z) (e : entry) : list Z :=
  [proof_tag (e_proof e); zlen (e_nulls e)] ++ concat (e_nulls e) ++ [e_vol e; sat_sub now (e_at e)].
Definition enc_bucket (now : Z) (kb : key * bucket) : list Z :=
  fst kb ++ enc_opt_age (option_map (sat_sub now) (b_snap (snd kb)))
  ++ [zlen (b_proofs (snd kb))] ++ flat_map (enc_entry now) (b_proofs (snd kb)).
Definition enc_state (st : state) : list Z :=
  [sat_sub (s_now st) (s_win_start st); s_verifs st; total_len (s_buckets st); zlen (s_buckets st)]
  ++ flat_map (enc_bucket (s_now st)) (sort_by fst (s_buckets st))
  ++ [zlen (s_index st)] ++ flat_map (fun nk => fst nk ++ snd nk) (sort_by (fun nk => fst nk ++ snd nk) (s_index st)).

Definition enc_proofs (l : list proof) : list Z :=
  zlen l :: flat_map (fun pr => zlen (p_pis pr) :: p_pis pr) l.
Definition enc_stat (s : stat) : list Z :=
  st_key s ++ [st_num s; st_batch s; st_oldest s; st_volume s] ++ enc_opt_age (st_snap_age s).
Definition enc_stats (l : list stat) : list Z := zlen l :: flat_map enc_stat (sort_by st_key l).
Definition enc_res_unit (r : res unit) : list Z := match r with Ok _ => [1] | Err c => [0; c] end.

Definition enc_ret (cfg : config) (r : ret) : list Z :=
  match r with
  | RPush (Ok k) => 1 :: k
  | RPush (Err c) => [0; c]
  | RCount n => [n]
  | RSnap None => [0]
  | RSnap (Some ps) => 1 :: enc_proofs ps ++ enc_res_unit (preflight cfg ps)
  | RRemoved ps => enc_proofs ps
  | RStats l => enc_stats l
  | RUnit => []
  end.

Definition b2z (b : bool) : Z := if b then 1 else 0.

(* one observation per step: return value, verifier-call delta, whole state, bucket_stats *)
(* framed as [len ret; ret..; len rest; rest..] so that the runner can attribute a disagreement to one op *)
Definition framed (l : list Z) : list Z := zlen l :: l.
Definition enc_step (cfg : config) (st' : state) (o : out) : list Z :=
  framed (enc_ret cfg (o_ret o)) ++ framed ([b2z (o_verified o)] ++ enc_state st' ++ enc_stats (stats cfg st')).

Fixpoint run_obs (cfg : config) (st : state) (ops : list op) : list Z :=
  match ops with
  | [] => []
  | o :: r => let '(st1, x) := step cfg st o in enc_step cfg st1 x ++ run_obs cfg st1 r
  end.

Definition arg (l : list Z) (i : nat) : Z := nth i l 0.

Definition dec_proof (l : list Z) : proof := mkProof (skipn 1 l) (negb (arg l 0 =? 0)).

Definition dec_op (seg : list Z) : op :=
  let c := arg seg 0 in
  let body := skipn 1 seg in
  if c =? 1 then Push (dec_proof body)
  else if c =? 2 then EvictSettled (chunks 4 body)
  else if c =? 3 then EvictOlder (arg body 0)
  else if c =? 4 then Snapshot body
  else if c =? 5 then RemoveBucket body
  else if c =? 6 then Advance (arg body 0)
  else Stats.

Definition dec_config (l : list Z) : config :=
  mkConfig (arg l 0) (arg l 1) (arg l 2) (arg l 3) (arg l 4) (arg l 5) (arg l 6).

(* fid 1901: segs = config :: ops.  fid 2102: segs = config :: proofs (preflight alone). *)
Definition dispatch (fid : Z) (args : list (list Z)) : list Z :=
  match args with
  | [] => [-2]
  | c :: rest =>
    let cfg := dec_config c in
    if fid =? 1901 then run_obs cfg (init 0) (map dec_op rest)
    else if fid =? 2102 then enc_res_unit (preflight cfg (map dec_proof rest))
    else [-2]
  end.
