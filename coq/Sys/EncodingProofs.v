(* Proofs about the encoding / compact-hash model (C25, C26). *)
From Coq Require Import Permutation Sorted.
From V.Base Require Import Common.
From V.Generated Require Import Constants.
From V.Sys Require Import Encoding.

Definition byte (b : Z) : Prop := 0 <= b < 256.
Definition u32 (x : Z) : Prop := 0 <= x < two32.
Definition u64 (x : Z) : Prop := 0 <= x < two64.

(* Fail-fast pins: every generated constant the proofs below unfold.  If /repo changes one of them the
   build stops here, in well under a second, instead of deep inside an arithmetic proof. *)
Lemma pin_inputs_order : INPUTS_GOLDILOCKS_ORDER = 18446744069414584321. Proof. reflexivity. Qed.
Lemma pin_merkle_modulus : MERKLE_GOLDILOCKS_MODULUS = 18446744069414584321. Proof. reflexivity. Qed.
Lemma pin_core_p : POSEIDON_CORE_P = 18446744069414584321. Proof. reflexivity. Qed.
Lemma pin_field_order : FIELD_ORDER = 18446744069414584321. Proof. reflexivity. Qed.
Lemma pin_p : p = 18446744069414584321. Proof. reflexivity. Qed.
Lemma pin_mask : SER_BIT_32_LIMB_MASK = 4294967295. Proof. reflexivity. Qed.
Lemma pin_max_bytes : MAX_SERIALIZED_BYTES = 1048576. Proof. reflexivity. Qed.
Lemma pin_max_felts : MAX_SERIALIZED_FELTS = 262145. Proof. reflexivity. Qed.
Lemma pin_digest_len : DIGEST_BYTES_LEN = 32. Proof. reflexivity. Qed.
Lemma pin_quant : AMOUNT_QUANTIZATION_FACTOR = 10000000000. Proof. reflexivity. Qed.

Ltac consts :=
  unfold MAX_SERIALIZED_BYTES, MAX_SERIALIZED_FELTS, SER_BIT_32_LIMB_MASK, DIGEST_BYTES_LEN,
    INPUTS_GOLDILOCKS_ORDER, MERKLE_GOLDILOCKS_MODULUS, POSEIDON_CORE_P, FIELD_ORDER,
    AMOUNT_QUANTIZATION_FACTOR, byte, u32, u64, p, two32, two64 in *.

(* ------------------------------------------------------------------ res helpers *)

Lemma rbind_ok {A B} (m : res A) (f : A -> res B) b :
  rbind m f = Ok b <-> exists a, m = Ok a /\ f a = Ok b.
Proof.
  destruct m as [a|c]; cbn [rbind]; split.
  - intro H; exists a; auto.
  - intros [a' [E H]]; inversion E; subst; auto.
  - discriminate.
  - intros [a' [E _]]; discriminate.
Qed.
Lemma guard_ok b c : guard b c = Ok tt <-> b = true.
Proof. destruct b; cbn [guard]; split; intro H; try reflexivity; discriminate. Qed.
Lemma guard_true b c (k : unit -> res (list Z)) : b = true -> rbind (guard b c) k = k tt.
Proof. intros ->. reflexivity. Qed.
Lemma guard_false {B} b c (k : unit -> res B) : b = false -> rbind (guard b c) k = Err c.
Proof. intros ->. reflexivity. Qed.

(* ------------------------------------------------------------------ little-endian integers *)

Lemma to_le_length n x : length (to_le n x) = n.
Proof. revert x; induction n as [|n IH]; intro x; cbn [to_le length]; [reflexivity|now rewrite IH]. Qed.

Lemma to_le_bytes n x : Forall byte (to_le n x).
Proof.
  revert x; induction n as [|n IH]; intro x; cbn [to_le]; constructor; [|apply IH].
  unfold byte. lia.
Qed.

Lemma le_bound c : Forall byte c -> 0 <= le c < 256 ^ zlen c.
Proof.
  induction 1 as [|b c Hb Hc IH].
  - cbn. lia.
  - cbn [le]. rewrite zlen_cons. pose proof (zlen_nonneg c).
    rewrite Z.pow_add_r by lia. change (256 ^ 1) with 256. unfold byte in Hb. lia.
Qed.

Lemma to_le_le c : Forall byte c -> to_le (length c) (le c) = c.
Proof.
  induction 1 as [|b c Hb Hc IH]; [reflexivity|].
  cbn [length to_le le]. unfold byte in Hb.
  replace ((b + 256 * le c) mod 256) with b by lia.
  replace ((b + 256 * le c) / 256) with (le c) by lia.
  now rewrite IH.
Qed.

Lemma le_to_le n x : 0 <= x < 256 ^ Z.of_nat n -> le (to_le n x) = x.
Proof.
  revert x; induction n as [|n IH]; intros x Hx.
  - cbn in *. lia.
  - cbn [to_le le]. rewrite Nat2Z.inj_succ, Z.pow_succ_r in Hx by lia.
    rewrite IH; lia.
Qed.

Lemma le_inj c d : length c = length d -> Forall byte c -> Forall byte d -> le c = le d -> c = d.
Proof.
  intros L Hc Hd E. rewrite <- (to_le_le c Hc), <- (to_le_le d Hd), L, E. reflexivity.
Qed.

Lemma pow256_4 : 256 ^ Z.of_nat 4 = two32. Proof. reflexivity. Qed.
Lemma pow256_8 : 256 ^ Z.of_nat 8 = two64. Proof. reflexivity. Qed.

Ltac fbytes := repeat (apply Forall_cons; [assumption|]); apply Forall_nil.

Lemma le4_u32 a b c d : byte a -> byte b -> byte c -> byte d -> u32 (le [a; b; c; d]).
Proof. unfold byte, u32, two32, le. lia. Qed.

(* ------------------------------------------------------------------ edge encoding *)

Lemma list_ind4 (P : list Z -> Prop) :
  P [] -> (forall a, P [a]) -> (forall a b, P [a; b]) -> (forall a b c, P [a; b; c]) ->
  (forall a b c d r, P r -> P (a :: b :: c :: d :: r)) -> forall l, P l.
Proof.
  intros H0 H1 H2 H3 H4. fix IH 1.
  intros [|a [|b [|c [|d r]]]].
  - exact H0.
  - apply H1.
  - apply H2.
  - apply H3.
  - apply H4. apply IH.
Qed.

Lemma encode_raw_step a b c d r : encode_raw (a :: b :: c :: d :: r) = le [a; b; c; d] :: encode_raw r.
Proof. reflexivity. Qed.

Lemma encode_raw_nonempty bs : exists w r, encode_raw bs = w :: r.
Proof. destruct bs as [|a [|b [|c [|d r]]]]; cbn [encode_raw]; eauto. Qed.

Lemma encode_raw_u32 bs : Forall byte bs -> Forall u32 (encode_raw bs).
Proof.
  induction bs as [|a|a b|a b c|a b c d r IH] using list_ind4; intro HB.
  - repeat constructor; unfold u32, two32; cbn; lia.
  - inversion_clear HB as [|? ? Ha _]. cbn [encode_raw]. repeat constructor; apply le4_u32; unfold byte in *; lia.
  - inversion_clear HB as [|? ? Ha HB']. inversion_clear HB' as [|? ? Hb _].
    cbn [encode_raw]. repeat constructor; apply le4_u32; unfold byte in *; lia.
  - inversion_clear HB as [|? ? Ha HB']. inversion_clear HB' as [|? ? Hb HB]. inversion_clear HB as [|? ? Hc _].
    cbn [encode_raw]. repeat constructor; apply le4_u32; unfold byte in *; lia.
  - inversion_clear HB as [|? ? Ha HB']. inversion_clear HB' as [|? ? Hb HB]. inversion_clear HB as [|? ? Hc HB'].
    inversion_clear HB' as [|? ? Hd HB].
    rewrite encode_raw_step. constructor; [apply le4_u32; assumption|apply IH; assumption].
Qed.

Lemma encode_raw_len bs : zlen (encode_raw bs) = zlen bs / 4 + 1.
Proof.
  induction bs as [|a|a b|a b c|a b c d r IH] using list_ind4; try reflexivity.
  rewrite encode_raw_step. rewrite !zlen_cons, IH. pose proof (zlen_nonneg r). lia.
Qed.

Lemma decode_last_le4 a b c d : byte a -> byte b -> byte c -> byte d ->
  decode_last (le [a; b; c; d]) = strip_marker a b c d.
Proof.
  intros Ha Hb Hc Hd. unfold decode_last.
  change 4%nat with (length [a; b; c; d]). rewrite to_le_le by fbytes. reflexivity.
Qed.

Lemma byte0 : byte 0. Proof. unfold byte; lia. Qed.
Lemma byte1 : byte 1. Proof. unfold byte; lia. Qed.

Lemma decode_words_encode bs : Forall byte bs -> decode_words (encode_raw bs) = Ok bs.
Proof.
  induction bs as [|a|a b|a b c|a b c d r IH] using list_ind4; intro HB.
  - reflexivity.
  - inversion_clear HB as [|? ? Ha _]. cbn [encode_raw decode_words].
    rewrite decode_last_le4 by auto using byte0, byte1. unfold strip_marker.
    cbn [Z.eqb andb]. rewrite !andb_false_r. reflexivity.
  - inversion_clear HB as [|? ? Ha HB']. inversion_clear HB' as [|? ? Hb _].
    cbn [encode_raw decode_words].
    rewrite decode_last_le4 by auto using byte0, byte1. unfold strip_marker.
    cbn [Z.eqb andb]. rewrite !andb_false_r. reflexivity.
  - inversion_clear HB as [|? ? Ha HB']. inversion_clear HB' as [|? ? Hb HB]. inversion_clear HB as [|? ? Hc _].
    cbn [encode_raw decode_words].
    rewrite decode_last_le4 by auto using byte0, byte1. unfold strip_marker.
    cbn [Z.eqb andb]. rewrite !andb_false_r. reflexivity.
  - inversion_clear HB as [|? ? Ha HB']. inversion_clear HB' as [|? ? Hb HB]. inversion_clear HB as [|? ? Hc HB'].
    inversion_clear HB' as [|? ? Hd HB].
    rewrite encode_raw_step. destruct (encode_raw_nonempty r) as [w [r' E]].
    specialize (IH HB). rewrite E in *. cbn [decode_words] in *. rewrite IH. cbn [rbind].
    pose proof (to_le_le [a; b; c; d]) as T. cbn [length] in T. rewrite T by fbytes.
    reflexivity.
Qed.

Lemma strip_marker_sound b0 b1 b2 b3 bs : byte b0 -> byte b1 -> byte b2 -> byte b3 ->
  strip_marker b0 b1 b2 b3 = Ok bs -> [le [b0; b1; b2; b3]] = encode_raw bs /\ Forall byte bs.
Proof.
  intros B0 B1 B2 B3. unfold strip_marker.
  destruct (Z.eqb_spec b0 1), (Z.eqb_spec b1 0), (Z.eqb_spec b2 0), (Z.eqb_spec b3 0),
    (Z.eqb_spec b1 1), (Z.eqb_spec b2 1), (Z.eqb_spec b3 1); cbn [andb]; intro H; inversion H; subst;
    try (exfalso; lia); (split; [reflexivity | fbytes]).
Qed.

Lemma decode_last_sound w bs : u32 w -> decode_last w = Ok bs -> [w] = encode_raw bs /\ Forall byte bs.
Proof.
  intros Hw. unfold decode_last. cbn [to_le].
  pose proof (le_to_le 4 w) as L. rewrite pow256_4 in L. specialize (L Hw). cbn [to_le] in L.
  pose proof (to_le_bytes 4 w) as B. cbn [to_le] in B.
  inversion_clear B as [|? ? B0 B']. inversion_clear B' as [|? ? B1 B]. inversion_clear B as [|? ? B2 B'].
  inversion_clear B' as [|? ? B3 _].
  intro H. apply strip_marker_sound in H; try assumption. rewrite L in H. exact H.
Qed.

Lemma decode_last_err w c : decode_last w = Err c -> c = 4.
Proof.
  unfold decode_last, strip_marker. cbn [to_le].
  repeat match goal with |- context [if ?b then _ else _] => destruct b end; intro H; inversion H; reflexivity.
Qed.

Lemma decode_words_sound ws : forall bs, Forall u32 ws -> decode_words ws = Ok bs ->
  ws = encode_raw bs /\ Forall byte bs.
Proof.
  induction ws as [|w r IH]; intros bs HU HD; [discriminate|].
  inversion_clear HU as [|? ? Hw Hr].
  destruct r as [|w' r'].
  - cbn [decode_words] in HD. apply decode_last_sound; assumption.
  - change (decode_words (w :: w' :: r')) with (t <-? decode_words (w' :: r') ;; Ok (to_le 4 w ++ t)) in HD.
    apply rbind_ok in HD. destruct HD as [t [Ht HD]].
    assert (Ebs : bs = to_le 4 w ++ t) by congruence. subst bs. clear HD.
    destruct (IH t Hr Ht) as [E Bt]. split.
    + cbn [to_le app]. rewrite encode_raw_step. rewrite <- E.
      pose proof (le_to_le 4 w) as L. rewrite pow256_4 in L. specialize (L Hw). cbn [to_le] in L.
      rewrite L. reflexivity.
    + apply Forall_app. split; [apply to_le_bytes|assumption].
Qed.

Lemma decode_words_err ws c : ws <> [] -> decode_words ws = Err c -> c = 4.
Proof.
  induction ws as [|w r IH]; intros NE HD; [congruence|].
  destruct r as [|w' r'].
  - cbn [decode_words] in HD. eapply decode_last_err; eassumption.
  - change (decode_words (w :: w' :: r')) with (t <-? decode_words (w' :: r') ;; Ok (to_le 4 w ++ t)) in HD.
    destruct (decode_words (w' :: r')) as [t|c'] eqn:E; cbn [rbind] in HD; [discriminate|].
    inversion HD; subst c'. apply IH; [discriminate|reflexivity].
Qed.

Lemma to_canonical_small x : x < p -> to_canonical x = x.
Proof. unfold to_canonical. consts. intro H. destruct (Z.leb_spec 18446744069414584321 x); lia. Qed.

Lemma to_canonical_u32_list l : Forall u32 l -> map to_canonical l = l.
Proof.
  induction 1 as [|x l Hx Hl IH]; [reflexivity|]. cbn [map]. rewrite IH, to_canonical_small; [reflexivity|].
  consts. lia.
Qed.

Lemma forallb_mask l : forallb (fun v => v <=? SER_BIT_32_LIMB_MASK) l = true <-> Forall (fun v => v < two32) l.
Proof.
  rewrite forallb_forall, Forall_forall. consts. split; intros H x Hx; specialize (H x Hx); lia.
Qed.

Lemma u64s_to_bytes_ok ws bs :
  u64s_to_bytes ws = Ok bs <-> (Forall (fun v => v < two32) ws /\ ws <> [] /\ decode_words ws = Ok bs).
Proof.
  unfold u64s_to_bytes. split.
  - intro H. apply rbind_ok in H. destruct H as [[] [G1 H]]. apply rbind_ok in H. destruct H as [[] [G2 H]].
    apply guard_ok in G1, G2. apply forallb_mask in G2. split; [assumption|]. split; [|assumption].
    destruct ws; [discriminate|discriminate].
  - intros [F [NE D]]. rewrite guard_true; [|destruct ws; [congruence|reflexivity]].
    rewrite guard_true; [assumption|]. apply forallb_mask; assumption.
Qed.

(* decode on canonical words: complete characterisation for non-negative words *)
Lemma u64s_to_bytes_spec ws bs : Forall (fun v => 0 <= v) ws ->
  (u64s_to_bytes ws = Ok bs <-> (ws = encode_raw bs /\ Forall byte bs)).
Proof.
  intro NN. rewrite u64s_to_bytes_ok. split.
  - intros [F [NE D]]. apply decode_words_sound; [|assumption].
    rewrite Forall_forall in *. intros x Hx. unfold u32. split; [apply NN|apply F]; assumption.
  - intros [E B]. subst ws. pose proof (encode_raw_u32 bs B) as U. split; [|split].
    + rewrite Forall_forall in *. intros x Hx. apply U; assumption.
    + destruct (encode_raw_nonempty bs) as [w [r ->]]. discriminate.
    + apply decode_words_encode; assumption.
Qed.

Lemma to_canonical_nonneg x : 0 <= x -> 0 <= to_canonical x.
Proof. unfold to_canonical. consts. intro H. destruct (Z.leb_spec 18446744069414584321 x); lia. Qed.

(* ---- the statements of C25 about the edge encoding *)

Lemma edge_roundtrip bs : Forall byte bs -> zlen bs <= 1048576 ->
  (fs <-? bytes_to_felts bs ;; felts_to_bytes fs) = Ok bs.
Proof.
  intros B L. unfold bytes_to_felts. rewrite guard_true by (consts; lia). cbn [rbind].
  unfold felts_to_bytes. rewrite guard_true by (rewrite encode_raw_len; consts; lia).
  rewrite to_canonical_u32_list by (apply encode_raw_u32; assumption).
  apply u64s_to_bytes_spec; [|auto].
  pose proof (encode_raw_u32 bs B) as U. rewrite Forall_forall in *. intros x Hx. apply U; assumption.
Qed.

Lemma encode_raw_inj a b : Forall byte a -> Forall byte b -> encode_raw a = encode_raw b -> a = b.
Proof.
  intros Ha Hb E. pose proof (decode_words_encode a Ha) as Da. rewrite E, (decode_words_encode b Hb) in Da.
  inversion Da; reflexivity.
Qed.

Lemma edge_injective a b fa fb : Forall byte a -> Forall byte b ->
  bytes_to_felts a = Ok fa -> bytes_to_felts b = Ok fb -> fa = fb -> a = b.
Proof.
  unfold bytes_to_felts. intros Ha Hb Ea Eb E.
  apply rbind_ok in Ea. destruct Ea as [[] [_ Ea]]. apply rbind_ok in Eb. destruct Eb as [[] [_ Eb]].
  apply encode_raw_inj; try assumption. congruence.
Qed.

Lemma edge_encode_cap bs :
  (1048576 < zlen bs -> bytes_to_felts bs = Err 1) /\
  (zlen bs <= 1048576 -> bytes_to_felts bs = Ok (encode_raw bs) /\ zlen (encode_raw bs) = zlen bs / 4 + 1
                         /\ zlen (encode_raw bs) <= 262145).
Proof.
  unfold bytes_to_felts. split; intro H.
  - rewrite guard_false by (consts; lia). reflexivity.
  - rewrite guard_true by (consts; lia). split; [reflexivity|]. rewrite encode_raw_len. split; [reflexivity|lia].
Qed.

Lemma edge_decode_cap raw : 262145 < zlen raw -> felts_to_bytes raw = Err 1.
Proof. intro H. unfold felts_to_bytes. rewrite guard_false by (consts; lia). reflexivity. Qed.

Lemma felts_to_bytes_spec raw bs : Forall (fun v => 0 <= v) raw ->
  (felts_to_bytes raw = Ok bs <->
   (zlen raw <= 262145 /\ map to_canonical raw = encode_raw bs /\ Forall byte bs)).
Proof.
  intro NN. unfold felts_to_bytes.
  assert (NC : Forall (fun v => 0 <= v) (map to_canonical raw)).
  { rewrite Forall_forall in *. intros x Hx. apply in_map_iff in Hx. destruct Hx as [y [<- Hy]].
    apply to_canonical_nonneg, NN, Hy. }
  destruct (Z.leb_spec (zlen raw) MAX_SERIALIZED_FELTS) as [L|L].
  - cbn [guard rbind]. rewrite (u64s_to_bytes_spec _ _ NC). consts. intuition lia.
  - cbn [guard rbind]. consts. split; [discriminate|]. intros [L' _]. lia.
Qed.

Lemma felts_to_bytes_no_panic raw c : felts_to_bytes raw = Err c -> c = 1 \/ c = 2 \/ c = 3 \/ c = 4.
Proof.
  unfold felts_to_bytes, u64s_to_bytes.
  destruct (zlen raw <=? MAX_SERIALIZED_FELTS); cbn [guard rbind]; [|intro H; inversion H; auto].
  destruct (map to_canonical raw) as [|w r] eqn:E; cbn [length Nat.eqb negb guard rbind]; [intro H; inversion H; auto|].
  destruct (forallb _ (w :: r)); cbn [guard rbind]; [|intro H; inversion H; auto].
  intro H. apply decode_words_err in H; [auto|discriminate].
Qed.

(* ------------------------------------------------------------------ 8-byte limbs *)

Inductive aligned8 : list Z -> Prop :=
| a8_nil : aligned8 []
| a8_cons c r : length c = 8%nat -> aligned8 r -> aligned8 (c ++ r).

Lemma aligned8_of_len n : forall bs, length bs = (8 * n)%nat -> aligned8 bs.
Proof.
  induction n as [|n IH]; intros bs L.
  - destruct bs; [constructor|discriminate].
  - rewrite <- (firstn_skipn 8 bs). constructor.
    + rewrite firstn_length. lia.
    + apply IH. rewrite skipn_length. lia.
Qed.

Lemma aligned8_iff bs : aligned8 bs <-> zlen bs mod 8 = 0.
Proof.
  split.
  - induction 1 as [|c r L A IH]; [reflexivity|]. rewrite zlen_app. unfold zlen at 1. rewrite L.
    change (Z.of_nat 8) with 8. lia.
  - intro H. apply (aligned8_of_len (Z.to_nat (zlen bs / 8))). unfold zlen in *. lia.
Qed.

Lemma limbs8_app8 c r : length c = 8%nat -> limbs8 (c ++ r) = le c :: limbs8 r.
Proof.
  intro L. do 8 (destruct c as [|? c]; [discriminate|]). destruct c; [|discriminate]. reflexivity.
Qed.

Lemma limbs8_app_aligned a b : aligned8 a -> limbs8 (a ++ b) = limbs8 a ++ limbs8 b.
Proof.
  induction 1 as [|c r L A IH]; [reflexivity|].
  rewrite <- app_assoc. rewrite (limbs8_app8 c (r ++ b)) by assumption.
  rewrite (limbs8_app8 c r) by assumption. rewrite IH. reflexivity.
Qed.

Lemma limbs8_to_le8 r x : u64 x -> limbs8 (to_le 8 x ++ r) = x :: limbs8 r.
Proof.
  intro Hx. rewrite limbs8_app8 by apply to_le_length. rewrite le_to_le; [reflexivity|].
  rewrite pow256_8. exact Hx.
Qed.

Lemma limbs8_flat ls : Forall u64 ls -> limbs8 (flat_map (to_le 8) ls) = ls.
Proof.
  induction 1 as [|x l Hx Hl IH]; [reflexivity|]. cbn [flat_map]. rewrite limbs8_to_le8, IH by assumption. reflexivity.
Qed.

Lemma flat_limbs8 bs : aligned8 bs -> Forall byte bs -> flat_map (to_le 8) (limbs8 bs) = bs.
Proof.
  induction 1 as [|c r L A IH]; intro B; [reflexivity|].
  apply Forall_app in B. destruct B as [Bc Br].
  rewrite limbs8_app8 by assumption. cbn [flat_map]. rewrite IH by assumption.
  rewrite <- L, to_le_le by assumption. reflexivity.
Qed.

Lemma limbs8_u64 bs : aligned8 bs -> Forall byte bs -> Forall u64 (limbs8 bs).
Proof.
  induction 1 as [|c r L A IH]; intro B; [constructor|].
  apply Forall_app in B. destruct B as [Bc Br].
  rewrite limbs8_app8 by assumption. constructor; [|apply IH; assumption].
  pose proof (le_bound c Bc) as H. unfold zlen in H. rewrite L in H. rewrite pow256_8 in H. exact H.
Qed.

Lemma limbs8_len bs : aligned8 bs -> zlen bs = 8 * zlen (limbs8 bs).
Proof.
  induction 1 as [|c r L A IH]; [reflexivity|].
  rewrite limbs8_app8 by assumption. rewrite zlen_app, zlen_cons, IH. unfold zlen at 1. rewrite L. lia.
Qed.

Lemma flat_to_le8_aligned ls : aligned8 (flat_map (to_le 8) ls).
Proof. induction ls as [|x l IH]; [constructor|]. cbn [flat_map]. constructor; [apply to_le_length|exact IH]. Qed.

Lemma limbs8_inj a b : aligned8 a -> aligned8 b -> Forall byte a -> Forall byte b ->
  limbs8 a = limbs8 b -> a = b.
Proof.
  intros Aa Ab Ba Bb E. rewrite <- (flat_limbs8 a Aa Ba), <- (flat_limbs8 b Ab Bb), E. reflexivity.
Qed.

(* ------------------------------------------------------------------ digests *)

Lemma forallb_lt P l : forallb (fun v => v <? P) l = true <-> Forall (fun v => v < P) l.
Proof. rewrite forallb_forall, Forall_forall. split; intros H x Hx; specialize (H x Hx); lia. Qed.

Lemma digest_try_from_ok bs out :
  bytes_digest_try_from bs = Ok out <-> (out = bs /\ zlen bs = 32 /\ Forall (fun v => v < p) (limbs8 bs)).
Proof.
  unfold bytes_digest_try_from. split.
  - intro H. apply rbind_ok in H. destruct H as [[] [G1 H]]. apply rbind_ok in H. destruct H as [[] [G2 H]].
    apply guard_ok in G1, G2. apply forallb_lt in G2. assert (out = bs) by congruence. subst out. consts. split; [reflexivity|]. split; [lia|assumption].
  - intros [-> [L F]]. rewrite guard_true by (consts; lia). rewrite guard_true; [reflexivity|].
    apply forallb_lt. exact F.
Qed.

Lemma digest_try_from_err bs c : bytes_digest_try_from bs = Err c -> c = 1 \/ c = 2.
Proof.
  unfold bytes_digest_try_from.
  destruct (zlen bs =? DIGEST_BYTES_LEN); cbn [guard rbind]; [|intro H; inversion H; auto].
  destruct (forallb _ _); cbn [guard rbind]; intro H; inversion H; auto.
Qed.

Lemma aligned8_32 bs : zlen bs = 32 -> aligned8 bs.
Proof. intro L. apply aligned8_iff. rewrite L. reflexivity. Qed.

Lemma map_to_canonical_small l : Forall (fun v => v < p) l -> map to_canonical l = l.
Proof.
  induction 1 as [|x l Hx Hl IH]; [reflexivity|]. cbn [map]. rewrite IH, to_canonical_small by assumption. reflexivity.
Qed.

Lemma digest_to_bytes_map raw : digest_to_bytes raw = flat_map (to_le 8) (map to_canonical raw).
Proof. unfold digest_to_bytes. induction raw as [|x l IH]; [reflexivity|]. cbn [flat_map map]. now rewrite IH. Qed.

Lemma digest_roundtrip bs out : Forall byte bs -> bytes_digest_try_from bs = Ok out ->
  digest_to_bytes (bytes_to_digest bs) = bs.
Proof.
  intros B H. apply digest_try_from_ok in H. destruct H as [_ [L F]].
  rewrite digest_to_bytes_map. unfold bytes_to_digest. rewrite map_to_canonical_small by assumption.
  apply flat_limbs8; [apply aligned8_32|]; assumption.
Qed.

Lemma app_inj_len {A} (a b c d : list A) : length a = length b -> a ++ c = b ++ d -> a = b /\ c = d.
Proof.
  revert b; induction a as [|x a IH]; intros [|y b] L E; try discriminate.
  - auto.
  - cbn in E. inversion E; subst. destruct (IH b) as [-> ->]; auto.
Qed.

Lemma flat_to_le8_inj xs : forall ys, Forall u64 xs -> Forall u64 ys ->
  flat_map (to_le 8) xs = flat_map (to_le 8) ys -> xs = ys.
Proof.
  intros ys Hx Hy E. rewrite <- (limbs8_flat xs Hx), <- (limbs8_flat ys Hy), E. reflexivity.
Qed.

Lemma to_canonical_u64 x : u64 x -> u64 (to_canonical x) /\ to_canonical x < p.
Proof. unfold to_canonical. consts. intro H. destruct (Z.leb_spec 18446744069414584321 x); lia. Qed.

Lemma to_canonical_fix x : u64 x -> to_canonical x = x -> x < p.
Proof. unfold to_canonical. consts. intro H. destruct (Z.leb_spec 18446744069414584321 x); lia. Qed.

(* a 32-byte string that is NOT accepted does not survive the trip through felts *)
Lemma digest_roundtrip_only_accepted bs : Forall byte bs -> zlen bs = 32 ->
  digest_to_bytes (bytes_to_digest bs) = bs -> bytes_digest_try_from bs = Ok bs.
Proof.
  intros B L E. apply digest_try_from_ok. split; [reflexivity|]. split; [assumption|].
  pose proof (aligned8_32 bs L) as A. pose proof (limbs8_u64 bs A B) as U.
  rewrite digest_to_bytes_map in E. unfold bytes_to_digest in E.
  rewrite <- (flat_limbs8 bs A B) in E at 2.
  apply flat_to_le8_inj in E; [|
    rewrite Forall_forall in *; intros x Hx; apply in_map_iff in Hx; destruct Hx as [y [<- Hy]];
    apply to_canonical_u64, U, Hy | assumption].
  revert U E. generalize (limbs8 bs). induction l as [|x l IH]; intros U E; [constructor|].
  inversion_clear U as [|? ? Ux Ul]. cbn [map] in E. injection E as E1 E2.
  constructor; [apply to_canonical_fix; assumption|]. apply IH; assumption.
Qed.

Lemma digest_felts_valid raw : length raw = 4%nat -> Forall u64 raw ->
  utils_digest_to_bytes raw = Ok (digest_to_bytes raw) /\
  bytes_to_digest (digest_to_bytes raw) = map to_canonical raw.
Proof.
  intros L U.
  assert (UC : Forall u64 (map to_canonical raw)).
  { rewrite Forall_forall in *. intros x Hx. apply in_map_iff in Hx. destruct Hx as [y [<- Hy]].
    apply to_canonical_u64, U, Hy. }
  assert (E : bytes_to_digest (digest_to_bytes raw) = map to_canonical raw).
  { unfold bytes_to_digest. rewrite digest_to_bytes_map. apply limbs8_flat. exact UC. }
  split; [|exact E]. unfold utils_digest_to_bytes.
  assert (H : bytes_digest_try_from (digest_to_bytes raw) = Ok (digest_to_bytes raw)).
  { apply digest_try_from_ok. split; [reflexivity|]. split.
    - do 4 (destruct raw as [|? raw]; [discriminate|]). destruct raw; [|discriminate].
      unfold digest_to_bytes, zlen. cbn [flat_map]. rewrite !app_length, !to_le_length. reflexivity.
    - unfold bytes_to_digest in E. rewrite E. rewrite Forall_forall in *. intros x Hx.
      apply in_map_iff in Hx. destruct Hx as [y [<- Hy]]. apply to_canonical_u64, U, Hy. }
  rewrite H. reflexivity.
Qed.

(* ------------------------------------------------------------------ integer limb codecs *)

Lemma limb_ok v : as_32_bit_limb v = (if v <? two32 then Ok v else Err 5).
Proof.
  unfold as_32_bit_limb. consts.
  destruct (Z.leb_spec v 4294967295), (Z.ltb_spec v 4294967296); try lia; reflexivity.
Qed.

Lemma u64_accept_iff f0 f1 :
  is_ok (try_felts_to_u64 [f0; f1]) = true <-> (to_canonical f0 < two32 /\ to_canonical f1 < two32).
Proof.
  unfold try_felts_to_u64. cbn [map]. rewrite !limb_ok.
  destruct (Z.ltb_spec (to_canonical f0) two32), (Z.ltb_spec (to_canonical f1) two32); cbn [rbind is_ok];
    split; intro HH; try discriminate; try reflexivity; try lia; auto.
Qed.

Lemma u64_no_panic f0 f1 : try_felts_to_u64 [f0; f1] <> Err PANIC.
Proof.
  unfold try_felts_to_u64. cbn [map]. rewrite !limb_ok.
  destruct (to_canonical f0 <? two32), (to_canonical f1 <? two32); cbn [rbind]; discriminate.
Qed.

Lemma u64_encode_decode n : u64 n -> try_felts_to_u64 (u64_to_felts n) = Ok n.
Proof.
  intro H. unfold try_felts_to_u64, u64_to_felts. cbn [map].
  rewrite !to_canonical_small by (consts; lia). rewrite !limb_ok.
  destruct (Z.ltb_spec ((n / two32) mod two32) two32); [|consts; lia].
  destruct (Z.ltb_spec (n mod two32) two32); [|consts; lia].
  cbn [rbind]. f_equal. consts. lia.
Qed.

Lemma u64_decode_encode f0 f1 n : 0 <= f0 -> 0 <= f1 -> try_felts_to_u64 [f0; f1] = Ok n ->
  u64 n /\ u64_to_felts n = [to_canonical f0; to_canonical f1].
Proof.
  intros N0 N1. unfold try_felts_to_u64, u64_to_felts. cbn [map]. rewrite !limb_ok.
  pose proof (to_canonical_nonneg f0 N0). pose proof (to_canonical_nonneg f1 N1).
  destruct (Z.ltb_spec (to_canonical f0) two32); [|discriminate].
  destruct (Z.ltb_spec (to_canonical f1) two32); [|discriminate].
  cbn [rbind]. intro E. inversion E; subst n. clear E.
  set (a := to_canonical f0) in *. set (b := to_canonical f1) in *. consts.
  split; [lia|]. f_equal; [lia|]. f_equal. lia.
Qed.

Definition u128 (x : Z) : Prop := 0 <= x < two64 * two64.

Lemma u128_accept_iff f0 f1 f2 f3 :
  is_ok (try_felts_to_u128 [f0; f1; f2; f3]) = true <->
  (to_canonical f0 < two32 /\ to_canonical f1 < two32 /\ to_canonical f2 < two32 /\ to_canonical f3 < two32).
Proof.
  unfold try_felts_to_u128. cbn [map]. rewrite !limb_ok.
  destruct (Z.ltb_spec (to_canonical f0) two32), (Z.ltb_spec (to_canonical f1) two32),
    (Z.ltb_spec (to_canonical f2) two32), (Z.ltb_spec (to_canonical f3) two32); cbn [rbind is_ok];
    split; intro HH; try discriminate; try reflexivity; try lia; auto.
Qed.

Lemma u128_no_panic f0 f1 f2 f3 : try_felts_to_u128 [f0; f1; f2; f3] <> Err PANIC.
Proof.
  unfold try_felts_to_u128. cbn [map]. rewrite !limb_ok.
  destruct (to_canonical f0 <? two32), (to_canonical f1 <? two32), (to_canonical f2 <? two32),
    (to_canonical f3 <? two32); cbn [rbind]; discriminate.
Qed.

Lemma u128_encode_decode n : u128 n -> try_felts_to_u128 (u128_to_felts n) = Ok n.
Proof.
  intro H. unfold try_felts_to_u128, u128_to_felts. cbn [map].
  rewrite !to_canonical_small by (consts; lia). rewrite !limb_ok.
  destruct (Z.ltb_spec ((n / (two32 * two32 * two32)) mod two32) two32); [|consts; lia].
  destruct (Z.ltb_spec ((n / (two32 * two32)) mod two32) two32); [|consts; lia].
  destruct (Z.ltb_spec ((n / two32) mod two32) two32); [|consts; lia].
  destruct (Z.ltb_spec (n mod two32) two32); [|consts; lia].
  cbn [rbind]. f_equal. unfold u128 in H. consts. lia.
Qed.

Lemma u128_decode_encode f0 f1 f2 f3 n : 0 <= f0 -> 0 <= f1 -> 0 <= f2 -> 0 <= f3 ->
  try_felts_to_u128 [f0; f1; f2; f3] = Ok n ->
  u128 n /\ u128_to_felts n = [to_canonical f0; to_canonical f1; to_canonical f2; to_canonical f3].
Proof.
  intros N0 N1 N2 N3. unfold try_felts_to_u128, u128_to_felts. cbn [map]. rewrite !limb_ok.
  pose proof (to_canonical_nonneg f0 N0). pose proof (to_canonical_nonneg f1 N1).
  pose proof (to_canonical_nonneg f2 N2). pose proof (to_canonical_nonneg f3 N3).
  destruct (Z.ltb_spec (to_canonical f0) two32); [|discriminate].
  destruct (Z.ltb_spec (to_canonical f1) two32); [|discriminate].
  destruct (Z.ltb_spec (to_canonical f2) two32); [|discriminate].
  destruct (Z.ltb_spec (to_canonical f3) two32); [|discriminate].
  cbn [rbind]. intro E. inversion E; subst n. clear E.
  set (a := to_canonical f0) in *. set (b := to_canonical f1) in *.
  set (c := to_canonical f2) in *. set (d := to_canonical f3) in *. unfold u128. consts.
  split; [lia|]. f_equal; [lia|]. f_equal; [lia|]. f_equal; [lia|]. f_equal. lia.
Qed.

(* ------------------------------------------------------------------ quantisation *)

Lemma quantize_spec num :
  try_u128_to_quantized_felt num =
  (if 4294967295 <? num / 10000000000 then Err 6 else Ok (num / 10000000000)).
Proof.
  unfold try_u128_to_quantized_felt. consts.
  destruct (4294967295 <? num / 10000000000); reflexivity.
Qed.

Lemma quantize_fails_iff num : 0 <= num ->
  (is_ok (try_u128_to_quantized_felt num) = false <-> 4294967295 < num / 10000000000) /\
  (4294967295 < num / 10000000000 <-> 42949672960000000000 <= num).
Proof.
  intro H. rewrite quantize_spec. split.
  - destruct (Z.ltb_spec 4294967295 (num / 10000000000)); cbn [is_ok]; split; intro; try lia; try discriminate; reflexivity.
  - lia.
Qed.

Lemma quantize_roundtrip num q : 0 <= num -> try_u128_to_quantized_felt num = Ok q ->
  q = num / 10000000000 /\ u32 q /\ try_felt_to_quantized_u128 q = Ok (num - num mod 10000000000).
Proof.
  intro H. rewrite quantize_spec.
  destruct (Z.ltb_spec 4294967295 (num / 10000000000)); [discriminate|].
  intro E. inversion E; subst q. clear E. split; [reflexivity|].
  assert (U : u32 (num / 10000000000)) by (consts; lia). split; [exact U|].
  unfold try_felt_to_quantized_u128. rewrite to_canonical_small by (consts; lia). rewrite limb_ok.
  destruct (Z.ltb_spec (num / 10000000000) two32); [|consts; lia]. cbn [rbind]. f_equal. consts. lia.
Qed.

(* ------------------------------------------------------------------ compact hashing (C26) *)

Lemma mapM_canonical l :
  mapM canonical_limb l = if forallb (fun v => v <? POSEIDON_CORE_P) l then Ok l else Err 3.
Proof.
  induction l as [|x l IH]; [reflexivity|]. cbn [mapM forallb]. unfold canonical_limb at 1.
  destruct (x <? POSEIDON_CORE_P); cbn [guard rbind andb]; [|reflexivity].
  rewrite IH. destruct (forallb _ l); reflexivity.
Qed.

Lemma compact_preimage_spec bs :
  compact_preimage bs =
  if zlen bs <=? 1048576 then
    if zlen bs mod 8 =? 0 then
      if forallb (fun v => v <? p) (limbs8 bs) then Ok (limbs8 bs) else Err 3
    else Err 2
  else Err 1.
Proof.
  unfold compact_preimage, bytes_to_felts_compact_strict. rewrite mapM_canonical. consts.
  destruct (zlen bs <=? 1048576); cbn [guard rbind]; [|reflexivity].
  destruct (zlen bs mod 8 =? 0); reflexivity.
Qed.

Lemma compact_preimage_ok bs f :
  compact_preimage bs = Ok f <->
  (f = limbs8 bs /\ zlen bs <= 1048576 /\ zlen bs mod 8 = 0 /\ Forall (fun v => v < p) (limbs8 bs)).
Proof.
  rewrite compact_preimage_spec.
  destruct (Z.leb_spec (zlen bs) 1048576); [|split; [discriminate|intros [_ [? _]]; lia]].
  destruct (Z.eqb_spec (zlen bs mod 8) 0); [|split; [discriminate|intros [_ [_ [? _]]]; lia]].
  destruct (forallb _ _) eqn:F.
  - apply forallb_lt in F. split; [intro E; inversion E; auto|intros [-> _]; reflexivity].
  - split; [discriminate|]. intros [_ [_ [_ F']]]. apply forallb_lt in F'. congruence.
Qed.

Lemma compact_preimage_err bs c : compact_preimage bs = Err c -> c = 1 \/ c = 2 \/ c = 3.
Proof.
  rewrite compact_preimage_spec.
  repeat match goal with |- context [if ?b then _ else _] => destruct b end; intro H; inversion H; auto.
Qed.

Lemma compact_accept_iff H bs :
  is_ok (hash_bytes_compact H bs) = true <->
  (zlen bs <= 1048576 /\ zlen bs mod 8 = 0 /\ Forall (fun v => v < p) (limbs8 bs)).
Proof.
  unfold hash_bytes_compact. destruct (compact_preimage bs) as [f|c] eqn:E; cbn [rbind is_ok].
  - apply compact_preimage_ok in E. tauto.
  - split; [discriminate|]. intros [A [B C]].
    assert (X : compact_preimage bs = Ok (limbs8 bs)) by (apply compact_preimage_ok; auto). congruence.
Qed.

Lemma compact_no_panic H bs : hash_bytes_compact H bs <> Err PANIC.
Proof.
  unfold hash_bytes_compact. destruct (compact_preimage bs) as [f|c] eqn:E; cbn [rbind]; [discriminate|].
  apply compact_preimage_err in E. unfold PANIC. intro X. inversion X. lia.
Qed.

Lemma compact_encoding_injective a b fa fb : Forall byte a -> Forall byte b ->
  compact_preimage a = Ok fa -> compact_preimage b = Ok fb -> fa = fb -> a = b.
Proof.
  intros Ba Bb Ea Eb E. apply compact_preimage_ok in Ea, Eb.
  destruct Ea as [-> [_ [Aa _]]]. destruct Eb as [-> [_ [Ab _]]].
  apply limbs8_inj; try assumption; apply aligned8_iff; assumption.
Qed.

Lemma compact_hash_injective_cr H a b ha hb : Forall byte a -> Forall byte b ->
  (forall x y, hash_to_bytes H x = hash_to_bytes H y -> x = y) ->
  hash_bytes_compact H a = Ok ha -> hash_bytes_compact H b = Ok hb -> ha = hb -> a = b.
Proof.
  intros Ba Bb CR Ea Eb E. unfold hash_bytes_compact in *.
  apply rbind_ok in Ea, Eb. destruct Ea as [fa [Pa Ea]]. destruct Eb as [fb [Pb Eb]].
  inversion Ea; inversion Eb; subst. eapply compact_encoding_injective; eauto.
Qed.

(* ---- lexicographic order and sorting *)

Definition lex_le (a b : list Z) : Prop := lex_leb a b = true.

Lemma lex_total a : forall b, lex_leb a b = false -> lex_leb b a = true.
Proof.
  induction a as [|x a IH]; intros [|y b]; cbn [lex_leb]; try discriminate; try reflexivity.
  destruct (Z.ltb_spec x y), (Z.ltb_spec y x); try discriminate; try reflexivity; try lia. apply IH.
Qed.

Lemma lex_antisym a : forall b, lex_leb a b = true -> lex_leb b a = true -> a = b.
Proof.
  induction a as [|x a IH]; intros [|y b]; cbn [lex_leb]; try discriminate; try reflexivity.
  destruct (Z.ltb_spec x y), (Z.ltb_spec y x); try discriminate; try lia.
  intros H1 H2. f_equal; [lia|apply IH; assumption].
Qed.

Lemma lex_trans a : forall b c, lex_leb a b = true -> lex_leb b c = true -> lex_leb a c = true.
Proof.
  induction a as [|x a IH]; intros [|y b] [|z c]; cbn [lex_leb]; try discriminate; try reflexivity.
  destruct (Z.ltb_spec x y), (Z.ltb_spec y z), (Z.ltb_spec y x), (Z.ltb_spec z y), (Z.ltb_spec x z), (Z.ltb_spec z x);
    try discriminate; try reflexivity; try lia.
  apply IH.
Qed.

Lemma lex_refl a : lex_leb a a = true.
Proof. induction a as [|x a IH]; [reflexivity|]. cbn [lex_leb]. rewrite Z.ltb_irrefl. exact IH. Qed.

Lemma insert_perm x l : Permutation (insert_sorted x l) (x :: l).
Proof.
  induction l as [|y r IH]; [reflexivity|]. cbn [insert_sorted].
  destruct (lex_leb x y); [reflexivity|]. rewrite IH. apply perm_swap.
Qed.

Lemma sort_perm l : Permutation (sort_children l) l.
Proof.
  induction l as [|x l IH]; [reflexivity|]. cbn [sort_children fold_right].
  fold (sort_children l). rewrite insert_perm. constructor. exact IH.
Qed.

Lemma insert_sorted_sorted x l : StronglySorted lex_le l -> StronglySorted lex_le (insert_sorted x l).
Proof.
  induction 1 as [|y r S IH F]; [repeat constructor|]. cbn [insert_sorted].
  destruct (lex_leb x y) eqn:E.
  - constructor; [constructor; assumption|]. constructor; [exact E|].
    rewrite Forall_forall in *. intros z Hz. eapply lex_trans; [exact E|apply F, Hz].
  - constructor; [exact IH|]. apply lex_total in E.
    rewrite Forall_forall in *. intros z Hz.
    apply (Permutation_in _ (insert_perm x r)) in Hz. destruct Hz as [<-|Hz]; [exact E|apply F, Hz].
Qed.

Lemma sort_sorted l : StronglySorted lex_le (sort_children l).
Proof.
  induction l as [|x l IH]; [constructor|]. cbn [sort_children fold_right]. apply insert_sorted_sorted, IH.
Qed.

Lemma sorted_perm_eq l1 : forall l2, StronglySorted lex_le l1 -> StronglySorted lex_le l2 ->
  Permutation l1 l2 -> l1 = l2.
Proof.
  induction l1 as [|a l1 IH]; intros l2 S1 S2 P.
  - apply Permutation_nil in P. auto.
  - destruct l2 as [|b l2]; [apply Permutation_sym, Permutation_nil in P; discriminate|].
    inversion_clear S1 as [|? ? S1' F1]. inversion_clear S2 as [|? ? S2' F2].
    rewrite Forall_forall in F1, F2.
    assert (Hab : lex_le a b).
    { assert (I : In b (a :: l1)) by (apply (Permutation_in _ (Permutation_sym P)); left; reflexivity).
      destruct I as [<-|I]; [apply lex_refl|apply F1, I]. }
    assert (Hba : lex_le b a).
    { assert (I : In a (b :: l2)) by (apply (Permutation_in _ P); left; reflexivity).
      destruct I as [<-|I]; [apply lex_refl|apply F2, I]. }
    assert (E : a = b) by (apply lex_antisym; assumption). subst b.
    f_equal. apply IH; try assumption. eapply Permutation_cons_inv; exact P.
Qed.

Lemma sort_perm_eq l1 l2 : Permutation l1 l2 -> sort_children l1 = sort_children l2.
Proof.
  intro P. apply sorted_perm_eq; try apply sort_sorted.
  rewrite (sort_perm l1), P. symmetry. apply sort_perm.
Qed.

Lemma sort_of_sorted l : StronglySorted lex_le l -> sort_children l = l.
Proof. intro S. apply sorted_perm_eq; [apply sort_sorted|exact S|apply sort_perm]. Qed.

(* ---- node hashing *)

Lemma node_order_independent H c1 c2 : Permutation c1 c2 -> hash_node H c1 = hash_node H c2.
Proof. intro P. unfold hash_node. rewrite (sort_perm_eq c1 c2 P). reflexivity. Qed.

Lemma node_presorted_on_sorted H cs : StronglySorted lex_le cs -> hash_node H cs = hash_node_presorted H cs.
Proof. intro S. unfold hash_node, hash_node_presorted. rewrite sort_of_sorted by exact S. reflexivity. Qed.

Lemma node_is_presorted_of_sort H cs : hash_node H cs = hash_node_presorted H (sort_children cs).
Proof. reflexivity. Qed.

Definition hash32 (c : list Z) : Prop := zlen c = 32.

Lemma concat_len32 cs : Forall hash32 cs -> zlen (concat cs) = 32 * zlen cs.
Proof.
  induction 1 as [|c cs Hc Hcs IH]; [reflexivity|]. cbn [concat]. rewrite zlen_app, zlen_cons, IH, Hc. lia.
Qed.

Lemma limbs8_concat32 cs : Forall hash32 cs -> limbs8 (concat cs) = flat_map limbs8 cs.
Proof.
  induction 1 as [|c cs Hc Hcs IH]; [reflexivity|]. cbn [concat flat_map].
  rewrite limbs8_app_aligned by (apply aligned8_32; exact Hc). rewrite IH. reflexivity.
Qed.

Lemma forallb_flat_map {A B} (f : B -> bool) (g : A -> list B) l :
  forallb f (flat_map g l) = forallb (fun c => forallb f (g c)) l.
Proof. induction l as [|x l IH]; [reflexivity|]. cbn [flat_map forallb]. rewrite forallb_app, IH. reflexivity. Qed.

Lemma forallb_perm {A} (f : A -> bool) l1 l2 : Permutation l1 l2 -> forallb f l1 = forallb f l2.
Proof.
  induction 1 as [|x l l' P IH|x y l|l l' l'' P1 IH1 P2 IH2]; cbn [forallb].
  - reflexivity.
  - now rewrite IH.
  - destruct (f x), (f y); reflexivity.
  - now rewrite IH1.
Qed.

Lemma presorted_spec H cs : zlen cs = 4 -> Forall hash32 cs ->
  hash_node_presorted H cs =
  if forallb is_canonical_hash cs then Ok (hash_to_bytes H (flat_map limbs8 cs)) else Err 3.
Proof.
  intros L F. unfold hash_node_presorted, hash_bytes_compact. rewrite compact_preimage_spec.
  rewrite (concat_len32 cs F), L. cbn [Z.mul Z.leb Z.compare Z.modulo Z.div_eucl Z.eqb Pos.mul Pos.compare Pos.compare_cont].
  change (32 * 4 <=? 1048576) with true. change (32 * 4 mod 8 =? 0) with true. cbn iota.
  rewrite (limbs8_concat32 cs F), forallb_flat_map.
  unfold is_canonical_hash. consts.
  destruct (forallb _ cs); reflexivity.
Qed.

Lemma node_spec H cs : zlen cs = 4 -> Forall hash32 cs ->
  hash_node H cs =
  if forallb is_canonical_hash cs then Ok (hash_to_bytes H (flat_map limbs8 (sort_children cs))) else Err 3.
Proof.
  intros L F. rewrite node_is_presorted_of_sort.
  pose proof (sort_perm cs) as P.
  rewrite presorted_spec.
  - rewrite (forallb_perm _ _ _ P). reflexivity.
  - unfold zlen in *. rewrite (Permutation_length P). exact L.
  - eapply Permutation_Forall; [apply Permutation_sym; exact P|exact F].
Qed.

Lemma is_canonical_hash_iff c : is_canonical_hash c = true <-> Forall (fun v => v < p) (limbs8 c).
Proof. unfold is_canonical_hash. consts. apply forallb_lt. Qed.

(* ------------------------------------------------------------------ final forms used by Properties/C25.v, C26.v *)

Lemma c25_edge_cap :
  (forall bs, is_ok (bytes_to_felts bs) = false <-> 1048576 < zlen bs) /\
  (forall bs, zlen bs <= 1048576 ->
     bytes_to_felts bs = Ok (encode_raw bs) /\ zlen (encode_raw bs) = zlen bs / 4 + 1 /\
     zlen (encode_raw bs) <= 262145) /\
  (forall raw, 262145 < zlen raw -> felts_to_bytes raw = Err 1).
Proof.
  split; [|split].
  - intro bs. destruct (edge_encode_cap bs) as [A B]. split.
    + intro H. destruct (Z.ltb_spec 1048576 (zlen bs)) as [L|L]; [assumption|].
      destruct (B L) as [E _]. rewrite E in H. discriminate.
    + intro L. rewrite (A L). reflexivity.
  - intros bs L. apply edge_encode_cap. assumption.
  - apply edge_decode_cap.
Qed.

Lemma c25_decode_total :
  (forall raw, felts_to_bytes raw <> Err PANIC) /\
  (forall raw bs, Forall (fun v => 0 <= v) raw ->
     (felts_to_bytes raw = Ok bs <->
      (zlen raw <= 262145 /\ map to_canonical raw = encode_raw bs /\ Forall byte bs))).
Proof.
  split.
  - intros raw E. apply felts_to_bytes_no_panic in E. unfold PANIC in E. lia.
  - apply felts_to_bytes_spec.
Qed.

Lemma zlen_to_le n x : zlen (to_le n x) = Z.of_nat n.
Proof. unfold zlen. now rewrite to_le_length. Qed.

Lemma c25_digest_accept_iff :
  (forall l0 l1 l2 l3, u64 l0 -> u64 l1 -> u64 l2 -> u64 l3 ->
     (is_ok (bytes_digest_try_from (to_le 8 l0 ++ to_le 8 l1 ++ to_le 8 l2 ++ to_le 8 l3)) = true <->
      (l0 < p /\ l1 < p /\ l2 < p /\ l3 < p))) /\
  (forall bs, Forall byte bs -> zlen bs = 32 ->
     exists l0 l1 l2 l3, u64 l0 /\ u64 l1 /\ u64 l2 /\ u64 l3 /\
                         bs = to_le 8 l0 ++ to_le 8 l1 ++ to_le 8 l2 ++ to_le 8 l3) /\
  (forall bs, zlen bs <> 32 -> bytes_digest_try_from bs = Err 1) /\
  (forall bs out, bytes_digest_try_from bs = Ok out -> out = bs) /\
  (forall bs, bytes_digest_try_from bs <> Err PANIC).
Proof.
  split; [|split; [|split; [|split]]].
  - intros l0 l1 l2 l3 U0 U1 U2 U3.
    set (bs := to_le 8 l0 ++ to_le 8 l1 ++ to_le 8 l2 ++ to_le 8 l3).
    assert (EL : limbs8 bs = [l0; l1; l2; l3]).
    { pose proof (limbs8_flat [l0; l1; l2; l3]) as X. cbn [flat_map] in X. rewrite app_nil_r in X.
      apply X. repeat (apply Forall_cons; [assumption|]). apply Forall_nil. }
    assert (LL : zlen bs = 32).
    { unfold bs. rewrite !zlen_app, !zlen_to_le. reflexivity. }
    destruct (bytes_digest_try_from bs) as [o|c] eqn:E; cbn [is_ok].
    + apply digest_try_from_ok in E. destruct E as [_ [_ F]]. rewrite EL in F.
      inversion_clear F as [|? ? F0 F']. inversion_clear F' as [|? ? F1 F]. inversion_clear F as [|? ? F2 F'].
      inversion_clear F' as [|? ? F3 _]. tauto.
    + split; [discriminate|]. intros [F0 [F1 [F2 F3]]].
      assert (X : bytes_digest_try_from bs = Ok bs).
      { apply digest_try_from_ok. split; [reflexivity|]. split; [assumption|]. rewrite EL.
        repeat (apply Forall_cons; [assumption|]). apply Forall_nil. }
      congruence.
  - intros bs B L. pose proof (aligned8_32 bs L) as A.
    pose proof (limbs8_u64 bs A B) as U. pose proof (flat_limbs8 bs A B) as F.
    pose proof (limbs8_len bs A) as LL. rewrite L in LL.
    destruct (limbs8 bs) as [|l0 [|l1 [|l2 [|l3 [|l4 r]]]]]; try (cbn in LL; lia).
    all: try (rewrite !zlen_cons in LL; pose proof (zlen_nonneg r); lia).
    inversion_clear U as [|? ? U0 U']. inversion_clear U' as [|? ? U1 U]. inversion_clear U as [|? ? U2 U'].
    inversion_clear U' as [|? ? U3 _].
    exists l0, l1, l2, l3. repeat (split; [assumption|]). cbn [flat_map] in F. rewrite app_nil_r in F. auto.
  - intros bs L. unfold bytes_digest_try_from. rewrite guard_false by (consts; lia). reflexivity.
  - intros bs out E. apply digest_try_from_ok in E. tauto.
  - intros bs E. apply digest_try_from_err in E. unfold PANIC in E. lia.
Qed.

Lemma c25_digest_roundtrip :
  (forall bs out, Forall byte bs -> bytes_digest_try_from bs = Ok out ->
     digest_to_bytes (bytes_to_digest bs) = bs) /\
  (forall bs, Forall byte bs -> zlen bs = 32 ->
     digest_to_bytes (bytes_to_digest bs) = bs -> bytes_digest_try_from bs = Ok bs) /\
  (forall raw, length raw = 4%nat -> Forall u64 raw ->
     utils_digest_to_bytes raw = Ok (digest_to_bytes raw) /\
     bytes_to_digest (digest_to_bytes raw) = map to_canonical raw).
Proof.
  split; [|split].
  - intros bs out B E. eapply digest_roundtrip; eassumption.
  - apply digest_roundtrip_only_accepted.
  - apply digest_felts_valid.
Qed.

Lemma to_canonical_limb_iff f : u64 f -> (to_canonical f < two32 <-> (f < two32 \/ p <= f)).
Proof. unfold to_canonical. consts. intro H. destruct (Z.leb_spec 18446744069414584321 f); lia. Qed.

Lemma c25_limbs :
  (forall f0 f1, is_ok (try_felts_to_u64 [f0; f1]) = true <->
                 (to_canonical f0 < two32 /\ to_canonical f1 < two32)) /\
  (forall n, u64 n -> try_felts_to_u64 (u64_to_felts n) = Ok n) /\
  (forall f0 f1 n, 0 <= f0 -> 0 <= f1 -> try_felts_to_u64 [f0; f1] = Ok n ->
     u64 n /\ u64_to_felts n = [to_canonical f0; to_canonical f1]) /\
  (forall f0 f1, try_felts_to_u64 [f0; f1] <> Err PANIC) /\
  (forall f0 f1 f2 f3, is_ok (try_felts_to_u128 [f0; f1; f2; f3]) = true <->
     (to_canonical f0 < two32 /\ to_canonical f1 < two32 /\ to_canonical f2 < two32 /\ to_canonical f3 < two32)) /\
  (forall n, u128 n -> try_felts_to_u128 (u128_to_felts n) = Ok n) /\
  (forall f0 f1 f2 f3 n, 0 <= f0 -> 0 <= f1 -> 0 <= f2 -> 0 <= f3 ->
     try_felts_to_u128 [f0; f1; f2; f3] = Ok n ->
     u128 n /\ u128_to_felts n = [to_canonical f0; to_canonical f1; to_canonical f2; to_canonical f3]) /\
  (forall f0 f1 f2 f3, try_felts_to_u128 [f0; f1; f2; f3] <> Err PANIC) /\
  (forall f, u64 f -> (to_canonical f < two32 <-> (f < two32 \/ p <= f))).
Proof.
  split; [exact u64_accept_iff|].
  split; [exact u64_encode_decode|].
  split; [exact u64_decode_encode|].
  split; [exact u64_no_panic|].
  split; [exact u128_accept_iff|].
  split; [exact u128_encode_decode|].
  split; [exact u128_decode_encode|].
  split; [exact u128_no_panic|].
  exact to_canonical_limb_iff.
Qed.

Lemma c25_quantize :
  (forall num, 0 <= num ->
     (is_ok (try_u128_to_quantized_felt num) = false <-> 4294967295 < num / 10000000000) /\
     (4294967295 < num / 10000000000 <-> 42949672960000000000 <= num)) /\
  (forall num q, 0 <= num -> try_u128_to_quantized_felt num = Ok q ->
     q = num / 10000000000 /\ u32 q /\ try_felt_to_quantized_u128 q = Ok (num - num mod 10000000000)).
Proof. split; [apply quantize_fails_iff|apply quantize_roundtrip]. Qed.

Lemma c26_accept :
  (forall H bs, is_ok (hash_bytes_compact H bs) = true <->
     (zlen bs <= 1048576 /\ zlen bs mod 8 = 0 /\ Forall (fun v => v < p) (limbs8 bs))) /\
  (forall H bs, hash_bytes_compact H bs <> Err PANIC) /\
  (forall ls, Forall u64 ls -> limbs8 (flat_map (to_le 8) ls) = ls) /\
  (forall bs, Forall byte bs -> zlen bs mod 8 = 0 ->
     flat_map (to_le 8) (limbs8 bs) = bs /\ Forall u64 (limbs8 bs)).
Proof.
  split; [|split; [|split]].
  - apply compact_accept_iff.
  - apply compact_no_panic.
  - apply limbs8_flat.
  - intros bs B A. apply aligned8_iff in A. split; [apply flat_limbs8|apply limbs8_u64]; assumption.
Qed.

Lemma c26_injective :
  (forall a b fa fb, Forall byte a -> Forall byte b ->
     compact_preimage a = Ok fa -> compact_preimage b = Ok fb -> fa = fb -> a = b) /\
  (forall H bs, hash_bytes_compact H bs =
                match compact_preimage bs with Ok f => Ok (hash_to_bytes H f) | Err c => Err c end).
Proof.
  split; [apply compact_encoding_injective|].
  intros H bs. unfold hash_bytes_compact. destruct (compact_preimage bs); reflexivity.
Qed.

Lemma c26_node_error :
  (forall H cs, zlen cs = 4 -> Forall (fun c => zlen c = 32) cs ->
     hash_node H cs =
     if forallb is_canonical_hash cs then Ok (hash_to_bytes H (flat_map limbs8 (sort_children cs))) else Err 3) /\
  (forall H cs, zlen cs = 4 -> Forall (fun c => zlen c = 32) cs ->
     hash_node_presorted H cs =
     if forallb is_canonical_hash cs then Ok (hash_to_bytes H (flat_map limbs8 cs)) else Err 3) /\
  (forall c, is_canonical_hash c = true <-> Forall (fun v => v < p) (limbs8 c)).
Proof. split; [apply node_spec|split; [apply presorted_spec|apply is_canonical_hash_iff]]. Qed.

Lemma c26_presorted :
  (forall H cs, StronglySorted (fun a b => lex_leb a b = true) cs -> hash_node H cs = hash_node_presorted H cs) /\
  (forall H cs, hash_node H cs = hash_node_presorted H (sort_children cs)) /\
  (forall cs, StronglySorted (fun a b => lex_leb a b = true) (sort_children cs) /\ Permutation (sort_children cs) cs) /\
  (forall a b, lex_leb a b = true \/ lex_leb b a = true) /\
  (forall a b, lex_leb a b = true -> lex_leb b a = true -> a = b) /\
  (forall a b c, lex_leb a b = true -> lex_leb b c = true -> lex_leb a c = true).
Proof.
  split; [|split; [|split; [|split; [|split]]]].
  - apply node_presorted_on_sorted.
  - reflexivity.
  - intro cs. split; [apply sort_sorted|apply sort_perm].
  - intros a b. destruct (lex_leb a b) eqn:E; [left; reflexivity|right; apply lex_total; exact E].
  - apply lex_antisym.
  - apply lex_trans.
Qed.
