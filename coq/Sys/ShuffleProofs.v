(* Proofs about Sys/Shuffle.v (C15). *)
From Coq Require Import Permutation.
From V.Base Require Import Common.
From V.Generated Require Import Constants.
From V.Sys Require Import Encoding EncodingProofs Shuffle.

Local Open Scope Z_scope.

(* ================================================================ upd / swap *)

Section Lists.
Context {A : Type}.
Implicit Types l pre suf : list A.

Lemma upd_nil i (x : A) : upd [] i x = [].
Proof. unfold upd. destruct i; reflexivity. Qed.

Lemma upd_cons_0 (a : A) l x : upd (a :: l) 0 x = x :: l.
Proof. reflexivity. Qed.

Lemma upd_cons_S (a : A) l i x : upd (a :: l) (S i) x = a :: upd l i x.
Proof.
  unfold upd. cbn [length]. change (Nat.ltb (S i) (S (length l))) with (Nat.ltb i (length l)).
  destruct (Nat.ltb i (length l)); reflexivity.
Qed.

Lemma upd_length l i (x : A) : length (upd l i x) = length l.
Proof.
  revert i; induction l as [|a l IH]; intro i; [now rewrite upd_nil|].
  destruct i; [reflexivity|]. rewrite upd_cons_S. cbn [length]. now rewrite IH.
Qed.

Lemma upd_at l1 (a : A) l2 x : upd (l1 ++ a :: l2) (length l1) x = l1 ++ x :: l2.
Proof.
  induction l1 as [|b l1 IH]; [reflexivity|].
  cbn [app length]. rewrite upd_cons_S, IH. reflexivity.
Qed.

Lemma upd_app_l l suf i (x : A) : (i < length l)%nat -> upd (l ++ suf) i x = upd l i x ++ suf.
Proof.
  revert i; induction l as [|a l IH]; intros i H; [cbn in H; lia|].
  destruct i; [reflexivity|]. cbn [app]. rewrite !upd_cons_S, IH by (cbn in H; lia). reflexivity.
Qed.

Lemma nth_upd l i (x : A) k d : (i < length l)%nat ->
  nth k (upd l i x) d = if Nat.eqb k i then x else nth k l d.
Proof.
  revert i k; induction l as [|a l IH]; intros i k H; [cbn in H; lia|].
  destruct i.
  - rewrite upd_cons_0. destruct k; reflexivity.
  - rewrite upd_cons_S. destruct k; [reflexivity|]. cbn [nth]. rewrite IH by (cbn in H; lia). reflexivity.
Qed.

Lemma swap_length l i j : length (swap l i j) = length l.
Proof.
  unfold swap. destruct (nth_error l i); [|reflexivity]. destruct (nth_error l j); [|reflexivity].
  now rewrite !upd_length.
Qed.

Lemma swap_in_range l i j d : (i < length l)%nat -> (j < length l)%nat ->
  swap l i j = upd (upd l i (nth j l d)) j (nth i l d).
Proof.
  intros Hi Hj. unfold swap.
  rewrite (nth_error_nth' l d Hi), (nth_error_nth' l d Hj). reflexivity.
Qed.

Lemma swap_nth l i j k d : (i < length l)%nat -> (j < length l)%nat ->
  nth k (swap l i j) d = if Nat.eqb k j then nth i l d else if Nat.eqb k i then nth j l d else nth k l d.
Proof.
  intros Hi Hj. rewrite (swap_in_range l i j d Hi Hj).
  rewrite nth_upd by (rewrite upd_length; exact Hj). destruct (Nat.eqb k j); [reflexivity|].
  rewrite nth_upd by exact Hi. reflexivity.
Qed.

Lemma swap_app_l l suf i j : (i < length l)%nat -> (j < length l)%nat ->
  swap (l ++ suf) i j = swap l i j ++ suf.
Proof.
  intros Hi Hj. unfold swap. rewrite !nth_error_app1 by assumption.
  destruct (nth_error l i) as [a|] eqn:Ea; [|apply nth_error_None in Ea; lia].
  destruct (nth_error l j) as [b|] eqn:Eb; [|apply nth_error_None in Eb; lia].
  rewrite upd_app_l by assumption. rewrite upd_app_l by (rewrite upd_length; assumption). reflexivity.
Qed.

Lemma swap_same l i : swap l i i = l.
Proof.
  unfold swap. destruct (nth_error l i) as [a|] eqn:E; [|reflexivity].
  destruct (nth_error_split l i E) as [l1 [l2 [-> L]]]. subst i. rewrite !upd_at. reflexivity.
Qed.

Lemma swap_perm_lt l i j : (i < j)%nat -> Permutation (swap l i j) l.
Proof.
  intro Hij. unfold swap.
  destruct (nth_error l i) as [a|] eqn:Ea; [|reflexivity].
  destruct (nth_error l j) as [b|] eqn:Eb; [|reflexivity].
  destruct (nth_error_split l i Ea) as [l1 [r [-> L1]]]. subst i.
  rewrite nth_error_app2 in Eb by lia.
  replace (j - length l1)%nat with (S (j - length l1 - 1)) in Eb by lia. cbn [nth_error] in Eb.
  destruct (nth_error_split r _ Eb) as [l2 [l3 [-> L2]]].
  rewrite upd_at.
  replace j with (length (l1 ++ b :: l2)) by (rewrite app_length; cbn [length]; lia).
  replace (l1 ++ b :: l2 ++ b :: l3) with ((l1 ++ b :: l2) ++ b :: l3) by (rewrite <- app_assoc; reflexivity).
  rewrite upd_at. rewrite <- app_assoc. cbn [app].
  apply Permutation_app_head.
  transitivity (b :: a :: l2 ++ l3).
  - apply perm_skip. symmetry. apply Permutation_middle.
  - transitivity (a :: b :: l2 ++ l3); [apply perm_swap|]. apply perm_skip. apply Permutation_middle.
Qed.

Lemma swap_sym l i j : swap l i j = swap l j i.
Proof.
  destruct (Nat.eq_dec i j) as [->|N]; [reflexivity|].
  unfold swap.
  destruct (nth_error l i) as [a|] eqn:Ea; destruct (nth_error l j) as [b|] eqn:Eb; try reflexivity.
  assert (Hi : (i < length l)%nat) by (apply nth_error_Some; congruence).
  assert (Hj : (j < length l)%nat) by (apply nth_error_Some; congruence).
  apply nth_ext with (d := a) (d' := a); [now rewrite !upd_length|].
  intros k _. rewrite !nth_upd by (rewrite ?upd_length; assumption).
  destruct (Nat.eqb_spec k j) as [Ej|Nj]; destruct (Nat.eqb_spec k i) as [Ei|Ni]; try reflexivity.
  congruence.
Qed.

Lemma swap_perm l i j : Permutation (swap l i j) l.
Proof.
  destruct (Nat.lt_trichotomy i j) as [H|[->|H]].
  - apply swap_perm_lt; exact H.
  - rewrite swap_same. reflexivity.
  - rewrite swap_sym. apply swap_perm_lt; exact H.
Qed.

(* ================================================================ Fisher-Yates *)

Lemma fy_go_perm i : forall draws l, Permutation (fy_go i draws l) l.
Proof.
  induction i as [|i IH]; intros draws l; [reflexivity|].
  cbn [fy_go]. destruct draws as [|d ds]; [reflexivity|].
  etransitivity; [apply IH|apply swap_perm].
Qed.

Lemma fy_go_length i draws l : length (fy_go i draws l) = length l.
Proof. apply Permutation_length, fy_go_perm. Qed.

(* positions above the current step are locked *)
Lemma fy_go_app i : forall draws pre suf, length pre = S i -> valid_draws i draws ->
  fy_go i draws (pre ++ suf) = fy_go i draws pre ++ suf.
Proof.
  induction i as [|i IH]; intros draws pre suf L V; [reflexivity|].
  destruct draws as [|d ds]; [reflexivity|]. cbn [valid_draws] in V. destruct V as [Hd V].
  cbn [fy_go]. rewrite swap_app_l by lia.
  destruct (exists_last (l := swap pre (S i) d)) as [pre' [x E]].
  { intro E. apply (f_equal (@length A)) in E. rewrite swap_length in E. cbn in E. lia. }
  assert (L' : length pre' = S i).
  { apply (f_equal (@length A)) in E. rewrite swap_length, app_length in E. cbn [length] in E. lia. }
  rewrite E. rewrite <- app_assoc. rewrite (IH ds pre' ([x] ++ suf) L' V), (IH ds pre' [x] L' V).
  rewrite <- app_assoc. reflexivity.
Qed.

(* one step on a slice of length i+2: the drawn element goes to the last position, the rest is a slice of length i+1 *)
Lemma fy_step l i d dft : length l = S (S i) -> (d <= S i)%nat ->
  exists pre', swap l (S i) d = pre' ++ [nth d l dft] /\ length pre' = S i /\
               Permutation (pre' ++ [nth d l dft]) l.
Proof.
  intros L Hd.
  destruct (exists_last (l := swap l (S i) d)) as [pre' [x E]].
  { intro E. apply (f_equal (@length A)) in E. rewrite swap_length in E. cbn in E. lia. }
  assert (L' : length pre' = S i).
  { apply (f_equal (@length A)) in E. rewrite swap_length, app_length in E. cbn [length] in E. lia. }
  assert (X : x = nth d l dft).
  { assert (N : nth (S i) (swap l (S i) d) dft = x).
    { rewrite E, app_nth2 by lia. rewrite L', Nat.sub_diag. reflexivity. }
    rewrite swap_nth in N by lia. rewrite <- N.
    destruct (Nat.eqb_spec (S i) d) as [<-|_]; [reflexivity|]. rewrite Nat.eqb_refl. reflexivity. }
  subst x. exists pre'. split; [exact E|]. split; [exact L'|]. rewrite <- E. apply swap_perm.
Qed.

Lemma fy_go_step l i d ds dft : length l = S (S i) -> (d <= S i)%nat -> valid_draws i ds ->
  exists pre', swap l (S i) d = pre' ++ [nth d l dft] /\ length pre' = S i /\
               Permutation (pre' ++ [nth d l dft]) l /\
               fy_go (S i) (d :: ds) l = fy_go i ds pre' ++ [nth d l dft].
Proof.
  intros L Hd V. destruct (fy_step l i d dft L Hd) as [pre' [E [L' P]]].
  exists pre'. repeat split; try assumption.
  cbn [fy_go]. rewrite E. apply fy_go_app; assumption.
Qed.

Lemma valid_draws_length i : forall ds, valid_draws i ds -> length ds = i.
Proof.
  induction i as [|i IH]; intros [|d ds] V; cbn [valid_draws] in V; try contradiction; [reflexivity|].
  cbn [length]. f_equal. apply IH. tauto.
Qed.

Lemma valid_drawsb_spec i : forall ds, valid_drawsb i ds = true <-> valid_draws i ds.
Proof.
  induction i as [|i IH]; intros [|d ds]; cbn [valid_drawsb valid_draws]; try (split; [discriminate|contradiction]).
  - tauto.
  - rewrite andb_true_iff, Nat.leb_le, IH. tauto.
Qed.

(* different valid draw vectors give different orders (of pairwise distinct slots) *)
Lemma fy_go_injective i : forall l ds ds', length l = S i -> NoDup l ->
  valid_draws i ds -> valid_draws i ds' -> fy_go i ds l = fy_go i ds' l -> ds = ds'.
Proof.
  induction i as [|i IH]; intros l ds ds' L ND V V' E.
  - destruct ds; [|contradiction]. destruct ds'; [reflexivity|contradiction].
  - destruct ds as [|d t]; [contradiction|]. destruct ds' as [|d' t']; [contradiction|].
    cbn [valid_draws] in V, V'. destruct V as [Hd V]. destruct V' as [Hd' V'].
    destruct l as [|a0 l0] eqn:El; [discriminate|]. rewrite <- El in *.
    destruct (fy_go_step l i d t a0 L Hd V) as [p1 [E1 [L1 [P1 G1]]]].
    destruct (fy_go_step l i d' t' a0 L Hd' V') as [p2 [E2 [L2 [P2 G2]]]].
    rewrite G1, G2 in E. apply app_inj_tail in E. destruct E as [E X].
    assert (d = d').
    { eapply (proj1 (NoDup_nth l a0) ND); [lia|lia|exact X]. }
    subst d'. rewrite E1 in E2. apply app_inj_tail in E2. destruct E2 as [-> _].
    f_equal. apply (IH p2 t t' L2); try assumption.
    eapply Permutation_NoDup in ND; [|symmetry; exact P2].
    apply NoDup_remove_1 in ND. rewrite app_nil_r in ND. exact ND.
Qed.

(* every order is reached *)
Lemma fy_go_surjective i : forall l t, length l = S i -> Permutation l t ->
  exists ds, valid_draws i ds /\ fy_go i ds l = t.
Proof.
  induction i as [|i IH]; intros l t L P.
  - exists []. split; [exact I|]. cbn [fy_go].
    destruct l as [|a [|b l]]; try discriminate. symmetry. apply Permutation_length_1_inv. exact P.
  - destruct (exists_last (l := t)) as [t' [y Et]].
    { intro E. subst t. apply Permutation_length in P. cbn in P. lia. }
    subst t.
    assert (Iy : In y l). { eapply Permutation_in; [symmetry; exact P|]. apply in_or_app. right. left. reflexivity. }
    destruct (In_nth l y y Iy) as [d [Hd Nd]].
    destruct (fy_step l i d y L ltac:(lia)) as [pre' [E [L' P']]].
    rewrite Nd in *.
    assert (Pt : Permutation pre' t').
    { apply Permutation_app_inv_r with (l := [y]). etransitivity; [exact P'|exact P]. }
    destruct (IH pre' t' L' Pt) as [ds [V G]].
    exists (d :: ds). split; [cbn [valid_draws]; split; [lia|exact V]|].
    cbn [fy_go]. rewrite E. rewrite fy_go_app by assumption. rewrite G. reflexivity.
Qed.

Lemma fisher_yates_perm l draws : Permutation (fisher_yates l draws) l.
Proof. apply fy_go_perm. Qed.

Lemma fisher_yates_bijection l t : NoDup l -> Permutation l t ->
  exists! ds, valid_draws (length l - 1) ds /\ fisher_yates l ds = t.
Proof.
  intros ND P. unfold fisher_yates.
  destruct l as [|a l].
  - exists []. split.
    + split; [exact I|]. cbn. symmetry. apply Permutation_nil. exact P.
    + intros ds [V _]. cbn in V. destruct ds; [reflexivity|contradiction].
  - cbn [length]. rewrite Nat.sub_succ, Nat.sub_0_r.
    destruct (fy_go_surjective (length l) (a :: l) t eq_refl P) as [ds [V G]].
    exists ds. split; [split; assumption|].
    intros ds' [V' G']. eapply fy_go_injective; try eassumption; [reflexivity|congruence].
Qed.

(* ================================================================ padding *)

Lemma pad_length (proofs : list A) template n : (length proofs <= n)%nat -> length (pad proofs template n) = n.
Proof. intro H. unfold pad. rewrite app_length, repeat_length. lia. Qed.

Lemma count_ok_spec (proofs : list A) n : count_ok proofs n = true <-> (1 <= length proofs <= n)%nat.
Proof.
  unfold count_ok. rewrite andb_true_iff, negb_true_iff, Nat.eqb_neq, Nat.leb_le. lia.
Qed.

Lemma commit_private_spec (proofs : list A) template n draws slots :
  commit_private proofs template n draws = Ok slots ->
  (1 <= length proofs <= n)%nat /\ length slots = n /\
  Permutation slots (proofs ++ repeat template (n - length proofs)).
Proof.
  unfold commit_private. destruct (count_ok proofs n) eqn:C; [|discriminate].
  apply count_ok_spec in C. intro H. injection H as <-. split; [exact C|].
  destruct (Nat.ltb 1 (length (pad proofs template n))).
  - split; [|apply fisher_yates_perm]. unfold fisher_yates. rewrite fy_go_length. apply pad_length. lia.
  - split; [apply pad_length; lia|reflexivity].
Qed.

Lemma commit_private_rejects (proofs : list A) template n draws :
  (length proofs = 0 \/ n < length proofs)%nat -> commit_private proofs template n draws = Err 1.
Proof.
  intro H. unfold commit_private. destruct (count_ok proofs n) eqn:C; [|reflexivity].
  apply count_ok_spec in C. lia.
Qed.

Lemma commit_public_spec (proofs : list A) template n slots :
  commit_public proofs template n = Ok slots ->
  (1 <= length proofs <= n)%nat /\ length slots = n /\
  firstn (length proofs) slots = proofs /\ skipn (length proofs) slots = repeat template (n - length proofs).
Proof.
  unfold commit_public. destruct (count_ok proofs n) eqn:C; [|discriminate].
  apply count_ok_spec in C. intro H. injection H as <-. split; [exact C|].
  split; [apply pad_length; lia|]. unfold pad. split.
  - rewrite firstn_app, Nat.sub_diag, firstn_all. cbn [firstn]. apply app_nil_r.
  - rewrite skipn_app, Nat.sub_diag, skipn_all. reflexivity.
Qed.

End Lists.

(* ================================================================ counting the draw vectors *)

(* every valid draw vector for a slice of length i+1, once *)
Fixpoint all_draws (i : nat) : list (list nat) :=
  match i with
  | O => [[]]
  | S i' => flat_map (fun d => map (cons d) (all_draws i')) (seq 0 (S i))
  end.

Lemma all_draws_spec i : forall ds, In ds (all_draws i) <-> valid_draws i ds.
Proof.
  induction i as [|i IH]; intro ds.
  - cbn. destruct ds; split; intro H; try tauto; try contradiction.
    destruct H as [H|[]]. discriminate.
  - cbn [all_draws]. rewrite in_flat_map. split.
    + intros [d [Hd H]]. apply in_map_iff in H. destruct H as [t [<- Ht]].
      apply in_seq in Hd. cbn [valid_draws]. split; [lia|apply IH; exact Ht].
    + destruct ds as [|d t]; [contradiction|]. cbn [valid_draws]. intros [Hd V].
      exists d. split; [apply in_seq; lia|]. apply in_map. apply IH. exact V.
Qed.

Lemma flat_map_const_length {X Y} (f : X -> list Y) c l :
  (forall x, length (f x) = c) -> length (flat_map f l) = (length l * c)%nat.
Proof.
  intro H. induction l as [|x l IH]; [reflexivity|]. cbn [flat_map length]. rewrite app_length, H, IH. lia.
Qed.

Lemma all_draws_length i : length (all_draws i) = fact (S i).
Proof.
  induction i as [|i IH]; [reflexivity|].
  cbn [all_draws]. rewrite flat_map_const_length with (c := fact (S i)).
  - rewrite seq_length. change (fact (S (S i))) with (S (S i) * fact (S i))%nat. reflexivity.
  - intro d. rewrite map_length. exact IH.
Qed.

Lemma NoDup_app_intro {X} (a b : list X) : NoDup a -> NoDup b -> (forall x, In x a -> ~ In x b) -> NoDup (a ++ b).
Proof.
  intros Na Nb D. induction a as [|x a IH]; [exact Nb|].
  cbn [app]. inversion_clear Na as [|? ? Hx Ha]. constructor.
  - intro H. apply in_app_or in H. destruct H as [H|H]; [contradiction|]. apply (D x); [left; reflexivity|exact H].
  - apply IH; [exact Ha|]. intros y Hy. apply D. right. exact Hy.
Qed.

Lemma all_draws_nodup i : NoDup (all_draws i).
Proof.
  induction i as [|i IH]; [repeat constructor; intros []|].
  cbn [all_draws]. generalize (seq_NoDup (S (S i)) 0). generalize (seq 0 (S (S i))) as l.
  induction l as [|d l IHl]; intro ND; [constructor|].
  inversion_clear ND as [|? ? Hd Hl]. cbn [flat_map]. apply NoDup_app_intro.
  - apply FinFun.Injective_map_NoDup; [|exact IH]. intros x y E. injection E. auto.
  - apply IHl. exact Hl.
  - intros ds H1 H2. apply in_map_iff in H1. destruct H1 as [t [<- _]].
    apply in_flat_map in H2. destruct H2 as [d' [Hd' H2]]. apply in_map_iff in H2. destruct H2 as [t' [E _]].
    injection E as E _. subst d'. contradiction.
Qed.

(* ================================================================ gen_index (rand 0.8.6 u32 sampling) *)

Definition u32s (l : list Z) : Prop := Forall (fun v => 0 <= v < two32) l.

Lemma lz32_facts range : 0 < range < two32 ->
  let K := 2 ^ lz32 range in
  0 < K /\ 2147483648 <= range * K < two32 /\ zone32 range = range * K - 1.
Proof.
  intros R K. unfold two32 in *.
  pose proof (Z.log2_spec range ltac:(lia)) as [L1 L2].
  pose proof (Z.log2_nonneg range) as L0.
  assert (L3 : Z.log2 range < 32). { apply Z.log2_lt_pow2; lia. }
  set (e := Z.log2 range) in *.
  assert (EK : 2 ^ e * K = 2147483648).
  { subst K. unfold lz32. fold e. rewrite <- Z.pow_add_r by lia. replace (e + (31 - e)) with 31 by lia. reflexivity. }
  assert (Ke : 2 ^ Z.succ e = 2 * 2 ^ e). { rewrite Z.pow_succ_r by lia. reflexivity. }
  rewrite Ke in L2.
  assert (K0 : 0 < K). { subst K. apply Z.pow_pos_nonneg; unfold lz32; fold e; lia. }
  assert (B : 2147483648 <= range * K < 4294967296) by nia.
  split; [exact K0|]. split; [exact B|].
  unfold zone32, two32. fold K. rewrite (Z.mod_small (range * K)) by lia. rewrite Z.mod_small by lia. reflexivity.
Qed.

Lemma wmul_hi_range range v : 0 < range -> 0 <= v < two32 -> 0 <= wmul_hi v range < range.
Proof.
  intros R V. unfold wmul_hi, two32 in *.
  assert (0 <= v * range < range * 4294967296) by nia.
  split; [apply Z.div_pos; lia|apply Z.div_lt_upper_bound; lia].
Qed.

Lemma gen_index_spec range : forall stream d rest, gen_index range stream = Some (d, rest) ->
  exists rej v, stream = rej ++ v :: rest /\ Forall (fun w => accept32 range w = false) rej /\
                accept32 range v = true /\ d = wmul_hi v range.
Proof.
  induction stream as [|v s IH]; intros d rest H; [discriminate|].
  cbn [gen_index] in H. destruct (accept32 range v) eqn:A.
  - injection H as <- <-. exists [], v. repeat split; [constructor|exact A].
  - destruct (IH d rest H) as [rej [w [-> [F [Aw ->]]]]].
    exists (v :: rej), w. repeat split; [constructor; assumption|exact Aw].
Qed.

Lemma gen_index_in_range range stream d rest : 0 < range -> u32s stream ->
  gen_index range stream = Some (d, rest) -> 0 <= d < range /\ u32s rest.
Proof.
  intros R U H. destruct (gen_index_spec range stream d rest H) as [rej [v [-> [_ [_ ->]]]]].
  unfold u32s in U. apply Forall_app in U. destruct U as [_ U]. inversion_clear U as [|? ? Hv Hr].
  split; [apply wmul_hi_range; assumption|exact Hr].
Qed.

(* the values the rejection step accepts for the result h are exactly 2^lz consecutive u32 values: the same number
   for every h, so a uniform u32 source gives a uniform index *)
Lemma accept32_interval range h : 0 < range < two32 -> 0 <= h < range ->
  let K := 2 ^ lz32 range in
  let c := (h * two32 + range - 1) / range in
  0 <= c /\ c + K <= two32 /\
  forall v, 0 <= v < two32 -> (accept32 range v = true /\ wmul_hi v range = h <-> c <= v < c + K).
Proof.
  intros R H K c. destruct (lz32_facts range R) as [K0 [B Zn]]. fold K in K0, B, Zn.
  unfold two32 in *.
  assert (C1 : h * 4294967296 <= c * range).
  { subst c. pose proof (Z.mod_pos_bound (h * 4294967296 + range - 1) range ltac:(lia)).
    pose proof (Z.div_mod (h * 4294967296 + range - 1) range ltac:(lia)). nia. }
  assert (C2 : c * range < h * 4294967296 + range).
  { subst c. pose proof (Z.mod_pos_bound (h * 4294967296 + range - 1) range ltac:(lia)).
    pose proof (Z.div_mod (h * 4294967296 + range - 1) range ltac:(lia)). nia. }
  assert (C0 : 0 <= c). { subst c. apply Z.div_pos; nia. }
  assert (CK : c + K <= 4294967296).
  { assert ((c + K - 1) * range < range * 4294967296) by nia. nia. }
  split; [exact C0|]. split; [exact CK|].
  intros v V. unfold accept32, wmul_hi, wmul_lo, two32. rewrite Zn, Z.leb_le.
  pose proof (Z.div_mod (v * range) 4294967296 ltac:(lia)) as DM.
  pose proof (Z.mod_pos_bound (v * range) 4294967296 ltac:(lia)) as MB.
  set (hi := v * range / 4294967296) in *. set (lo := (v * range) mod 4294967296) in *.
  split.
  - intros [A E]. subst h. split; nia.
  - intros [V1 V2].
    assert (M1 : h * 4294967296 <= v * range) by nia.
    assert (M2 : v * range < h * 4294967296 + range * K) by nia.
    assert (hi = h) by nia. subst h. split; [nia|reflexivity].
Qed.

Lemma draws_from_stream_valid i : forall stream ds rest, Z.of_nat i < two32 - 1 -> u32s stream ->
  draws_from_stream i stream = Some (ds, rest) -> valid_draws i ds /\ u32s rest.
Proof.
  induction i as [|i IH]; intros stream ds rest B U H.
  - cbn in H. injection H as <- <-. split; [exact I|exact U].
  - cbn [draws_from_stream] in H.
    destruct (gen_index (Z.of_nat (S i) + 1) stream) as [[d r]|] eqn:G; [|discriminate].
    destruct (draws_from_stream i r) as [[t r']|] eqn:D; [|discriminate].
    injection H as <- <-.
    destruct (gen_index_in_range (Z.of_nat (S i) + 1) stream d r ltac:(lia) U G) as [Hd Ur].
    destruct (IH r t r' ltac:(unfold two32 in *; lia) Ur D) as [V Ur'].
    split; [|exact Ur']. cbn [valid_draws]. split; [lia|exact V].
Qed.

Lemma shuffle_stream_spec {A} (l : list A) stream out ds rest :
  Z.of_nat (length l) < two32 -> u32s stream ->
  shuffle_stream l stream = Some (out, ds, rest) ->
  valid_draws (length l - 1) ds /\ out = fisher_yates l ds /\ Permutation out l.
Proof.
  intros B U H. unfold shuffle_stream in H.
  destruct (draws_from_stream (length l - 1) stream) as [[t r]|] eqn:D; [|discriminate].
  injection H as <- <- <-.
  destruct (draws_from_stream_valid (length l - 1) stream t r ltac:(unfold two32 in *; lia) U D) as [V _].
  split; [exact V|]. split; [reflexivity|apply fisher_yates_perm].
Qed.

(* ================================================================ dummy preimages *)

Definition accepted (c : list Z) : Prop := bytes_digest_try_from c = Ok c.
Definition acceptedb (c : list Z) : bool := is_ok (bytes_digest_try_from c).
Definition canonical (d : list Z) : Prop := length d = 4%nat /\ Forall (fun v => 0 <= v < p) d.

Lemma acceptedb_spec c : acceptedb c = true <-> accepted c.
Proof.
  unfold acceptedb, accepted. destruct (bytes_digest_try_from c) as [d|e] eqn:E; cbn [is_ok].
  - apply digest_try_from_ok in E. destruct E as [-> _]. tauto.
  - split; discriminate.
Qed.

Lemma accepted_iff c : accepted c <-> zlen c = 32 /\ Forall (fun v => v < p) (limbs8 c).
Proof. unfold accepted. rewrite digest_try_from_ok. tauto. Qed.

Lemma limbs8_32_length c : zlen c = 32 -> length (limbs8 c) = 4%nat.
Proof.
  unfold zlen. intro L. assert (L' : length c = 32%nat) by lia. clear L.
  do 32 (destruct c as [|? c]; [discriminate|]). destruct c; [reflexivity|discriminate].
Qed.

Lemma accepted_canonical c : Forall byte c -> accepted c -> canonical (limbs8 c).
Proof.
  intros B A. apply accepted_iff in A. destruct A as [L F]. split; [apply limbs8_32_length; exact L|].
  pose proof (limbs8_u64 c (aligned8_32 c L) B) as U.
  rewrite Forall_forall in *. intros v Hv. specialize (U v Hv). specialize (F v Hv). unfold u64 in U. lia.
Qed.

(* canonical digests <-> accepted byte strings, one to one *)
Lemma canonical_has_unique_candidate d : canonical d ->
  exists! c, Forall byte c /\ accepted c /\ limbs8 c = d.
Proof.
  intros [L F].
  assert (U : Forall u64 d). { rewrite Forall_forall in *. intros v Hv. specialize (F v Hv). unfold u64, p, two64 in *. lia. }
  exists (flat_map (to_le 8) d). split.
  - assert (E : limbs8 (flat_map (to_le 8) d) = d) by (apply limbs8_flat; exact U).
    split.
    + clear -d. induction d as [|x d IH]; [constructor|]. cbn [flat_map]. apply Forall_app. split; [apply to_le_bytes|exact IH].
    + split; [|exact E]. apply accepted_iff. rewrite E. split.
      * do 4 (destruct d as [|? d]; [discriminate|]). destruct d; [|discriminate].
        unfold zlen. cbn [flat_map]. rewrite !app_length, !to_le_length. reflexivity.
      * rewrite Forall_forall in *. intros v Hv. apply F. exact Hv.
  - intros c [B [A E]]. apply accepted_iff in A. destruct A as [Lc _].
    rewrite <- E. apply flat_limbs8; [apply aligned8_32; exact Lc|exact B].
Qed.

Lemma sample_preimage_spec cands d rest : sample_preimage cands = Some (d, rest) ->
  exists rej c, cands = rej ++ c :: rest /\ Forall (fun r => ~ accepted r) rej /\ accepted c /\ d = limbs8 c.
Proof.
  revert d rest; induction cands as [|c s IH]; intros d rest H; [discriminate|].
  cbn [sample_preimage] in H. destruct (bytes_digest_try_from c) as [x|e] eqn:E.
  - injection H as <- <-. pose proof E as E'. apply digest_try_from_ok in E'. destruct E' as [-> _].
    exists [], c. repeat split; [constructor|exact E].
  - destruct (IH d rest H) as [rej [c' [-> [F [A ->]]]]].
    exists (c :: rej), c'. repeat split; [|exact A]. constructor; [|exact F]. unfold accepted. congruence.
Qed.

Lemma sample_preimage_accepts c rest : accepted c -> sample_preimage (c :: rest) = Some (limbs8 c, rest).
Proof. unfold accepted. intro A. cbn [sample_preimage]. rewrite A. reflexivity. Qed.

Lemma sample_preimage_skips c rest : ~ accepted c -> sample_preimage (c :: rest) = sample_preimage rest.
Proof.
  intro N. cbn [sample_preimage]. destruct (bytes_digest_try_from c) as [x|e] eqn:E; [|reflexivity].
  exfalso. apply N. pose proof E as E'. apply digest_try_from_ok in E'. destruct E' as [-> _]. exact E.
Qed.

Lemma sample_preimage_filter cands : 
  match sample_preimage cands with
  | Some (d, rest) => exists c, filter acceptedb cands = c :: filter acceptedb rest /\ d = limbs8 c
  | None => filter acceptedb cands = []
  end.
Proof.
  induction cands as [|c s IH]; [reflexivity|].
  cbn [filter]. destruct (acceptedb c) eqn:A.
  - apply acceptedb_spec in A. rewrite (sample_preimage_accepts c s A). exists c. split; reflexivity.
  - assert (N : ~ accepted c). { intro H. apply acceptedb_spec in H. congruence. }
    rewrite (sample_preimage_skips c s N). exact IH.
Qed.

(* the n slot values are the images of the first n accepted candidates, in order: slot j depends on one
   candidate of the stream, and different slots on different candidates *)
Lemma sample_preimages_spec n : forall cands ds, sample_preimages n cands = Some ds <->
  ((n <= length (filter acceptedb cands))%nat /\ ds = map bytes_to_digest (firstn n (filter acceptedb cands))).
Proof.
  induction n as [|n IH]; intros cands ds.
  - cbn. split; [intro H; injection H as <-; split; [lia|reflexivity]|intros [_ ->]; reflexivity].
  - cbn [sample_preimages]. pose proof (sample_preimage_filter cands) as F.
    destruct (sample_preimage cands) as [[d rest]|].
    + destruct F as [c [Fc ->]]. rewrite Fc. cbn [length firstn map].
      destruct (sample_preimages n rest) as [t|] eqn:T.
      * apply IH in T. destruct T as [Ln ->]. split.
        -- intro H. injection H as <-. split; [lia|reflexivity].
        -- intros [_ ->]. reflexivity.
      * split; [discriminate|]. intros [Ln E]. exfalso.
        assert (X : sample_preimages n rest = Some (map bytes_to_digest (firstn n (filter acceptedb rest)))).
        { apply IH. split; [lia|reflexivity]. }
        congruence.
    + rewrite F. cbn [length]. split; [discriminate|]. intros [L _]. lia.
Qed.

(* ================================================================ the executable predicates on observations *)

Lemma insert_z_perm x l : Permutation (insert_z x l) (x :: l).
Proof.
  induction l as [|y l IH]; [reflexivity|]. cbn [insert_z]. destruct (x <=? y); [reflexivity|].
  etransitivity; [apply perm_skip, IH|apply perm_swap].
Qed.

Lemma sort_z_perm l : Permutation (sort_z l) l.
Proof.
  induction l as [|x l IH]; [reflexivity|]. unfold sort_z. cbn [fold_right].
  etransitivity; [apply insert_z_perm|apply perm_skip, IH].
Qed.

Lemma mem_l_spec x l : mem_l x l = true <-> In x l.
Proof.
  induction l as [|y l IH]; cbn [mem_l In]; [split; [discriminate|contradiction]|].
  rewrite orb_true_iff, list_eqb_spec, IH. split; intros [H|H]; auto.
Qed.

Lemma nodup_l_sound l : nodup_l l = true -> NoDup l.
Proof.
  induction l as [|x l IH]; [constructor|]. cbn [nodup_l]. rewrite andb_true_iff, negb_true_iff.
  intros [M N]. constructor; [|apply IH; exact N]. intro H. apply mem_l_spec in H. congruence.
Qed.

Lemma canonical_digest_sound d : canonical_digest d = true -> canonical d.
Proof.
  unfold canonical_digest, canonical. rewrite andb_true_iff, Nat.eqb_eq, forallb_forall.
  intros [L F]. split; [exact L|]. rewrite Forall_forall. intros v Hv. specialize (F v Hv).
  rewrite andb_true_iff, Z.leb_le, Z.ltb_lt in F. change INPUTS_GOLDILOCKS_ORDER with p in F. exact F.
Qed.

Lemma private_obs_ok_sound k n labels pre : private_obs_ok k n labels pre = true ->
  Permutation labels (real_labels k ++ repeat 0 (n - k)) /\ length labels = n /\
  length (chunks4 pre) = n /\ Forall canonical (chunks4 pre) /\ NoDup (chunks4 pre).
Proof.
  unfold private_obs_ok. rewrite !andb_true_iff, !Nat.eqb_eq, list_eqb_spec, forallb_forall.
  intros [[[[S L] L4] C] N].
  split.
  - unfold pad in S. unfold real_labels in *. rewrite map_length, seq_length in S.
    etransitivity; [symmetry; apply sort_z_perm|]. rewrite S. apply sort_z_perm.
  - split; [exact L|]. split; [exact L4|]. split; [|apply nodup_l_sound; exact N].
    rewrite Forall_forall. intros d Hd. apply canonical_digest_sound, C, Hd.
Qed.

Lemma public_obs_ok_spec k n labels : public_obs_ok k n labels = true <->
  labels = real_labels k ++ repeat 0 (n - k).
Proof.
  unfold public_obs_ok, pad, real_labels. rewrite list_eqb_spec, map_length, seq_length. tauto.
Qed.

Lemma fresh_ok_sound pre1 pre2 : fresh_ok pre1 pre2 = true ->
  NoDup (chunks4 pre1 ++ chunks4 pre2) /\ Forall canonical (chunks4 pre1 ++ chunks4 pre2).
Proof.
  unfold fresh_ok. rewrite andb_true_iff, forallb_forall. intros [C N].
  split; [apply nodup_l_sound; exact N|]. rewrite Forall_forall. intros d Hd. apply canonical_digest_sound, C, Hd.
Qed.
