(* Executable model of the circuit-config policy (C28).
     common/src/circuit.rs            : log2_ceil, validate_circuit_config
     wormhole/memprof/src/config.rs   : log2_ceil, AggConfigArgs::{validate, build}
     wormhole/circuit/src/circuit.rs, wormhole/prover/src/lib.rs,
     wormhole/aggregator/src/{private_batch,public_batch}/{circuit/circuit_logic.rs,prover/lib.rs}
                                      : the six public constructors, whose first statement is
                                        (directly or through the circuit constructor) validate_circuit_config(&config)?
   All numeric fields are usize values: Z in [0, 2^64) (usize = 64 bit).  Machine arithmetic that can
   leave the range is written with an explicit [wrap64].  Only the result *class* is modelled
   (Ok / Err code; the codes number the checks in source order and are not compared with the
   implementation). *)
From V.Base Require Import Common.
From V.Generated Require Import Constants.

Definition PANIC : Z := -1.

Definition wrap64 (x : Z) : Z := x mod two64.

(* number of significant bits of a u64 *)
Definition bitlen (x : Z) : Z := match x with Zpos q => Zpos (Pos.size q) | _ => 0 end.
(* u64::leading_zeros / usize::leading_zeros on a 64-bit target *)
Definition leading_zeros64 (x : Z) : Z := 64 - bitlen x.

(* fn log2_ceil(n: usize) -> usize { (usize::BITS - (n - 1).leading_zeros()) as usize }
   release build: [n - 1] wraps (n = 0 gives usize::MAX, result 64) *)
Definition log2_ceil (n : Z) : Z := 64 - leading_zeros64 (wrap64 (n - 1)).
(* debug build (overflow-checks): n = 0 panics at the subtraction *)
Definition log2_ceil_checked (n : Z) : res Z :=
  if n =? 0 then Err PANIC else Ok (64 - leading_zeros64 (n - 1)).

(* the fields of plonky2's CircuitConfig / FriConfig that the policy or the CLI read or write *)
Record Config := mkConfig {
  c_num_wires : Z;
  c_num_routed_wires : Z;
  c_security_bits : Z;
  c_num_challenges : Z;
  c_zero_knowledge : bool;
  c_max_quotient_degree_factor : Z;
  c_rate_bits : Z;            (* fri_config.rate_bits *)
  c_cap_height : Z;           (* fri_config.cap_height *)
  c_num_query_rounds : Z }.   (* fri_config.num_query_rounds *)

(* common/src/circuit.rs:497, checks in source order *)
Definition validate_circuit_config (c : Config) : res unit :=
  _ <-? guard (0 <? c_num_challenges c) 1 ;;
  _ <-? guard (0 <? c_security_bits c) 2 ;;
  _ <-? guard (0 <? c_num_query_rounds c) 3 ;;
  _ <-? guard (MIN_NUM_WIRES <=? c_num_wires c) 4 ;;
  _ <-? guard (MIN_NUM_ROUTED_WIRES <=? c_num_routed_wires c) 5 ;;
  _ <-? guard (c_num_routed_wires c <=? c_num_wires c) 6 ;;
  _ <-? guard (MIN_MAX_QUOTIENT_DEGREE_FACTOR <=? c_max_quotient_degree_factor c) 7 ;;
  _ <-? guard (c_rate_bits c <=? MAX_RATE_BITS) 8 ;;
  _ <-? guard (c_cap_height c <=? MAX_CAP_HEIGHT) 9 ;;
  let quotient_degree_bits := log2_ceil (c_max_quotient_degree_factor c) in
  _ <-? guard (quotient_degree_bits <=? c_rate_bits c) 10 ;;
  Ok tt.

(* the same function in a build with overflow checks: the subtraction inside log2_ceil may panic *)
Definition validate_circuit_config_checked (c : Config) : res unit :=
  _ <-? guard (0 <? c_num_challenges c) 1 ;;
  _ <-? guard (0 <? c_security_bits c) 2 ;;
  _ <-? guard (0 <? c_num_query_rounds c) 3 ;;
  _ <-? guard (MIN_NUM_WIRES <=? c_num_wires c) 4 ;;
  _ <-? guard (MIN_NUM_ROUTED_WIRES <=? c_num_routed_wires c) 5 ;;
  _ <-? guard (c_num_routed_wires c <=? c_num_wires c) 6 ;;
  _ <-? guard (MIN_MAX_QUOTIENT_DEGREE_FACTOR <=? c_max_quotient_degree_factor c) 7 ;;
  _ <-? guard (c_rate_bits c <=? MAX_RATE_BITS) 8 ;;
  _ <-? guard (c_cap_height c <=? MAX_CAP_HEIGHT) 9 ;;
  quotient_degree_bits <-? log2_ceil_checked (c_max_quotient_degree_factor c) ;;
  _ <-? guard (quotient_degree_bits <=? c_rate_bits c) 10 ;;
  Ok tt.

(* ---------------------------------------------------------------- constructors
   WormholeCircuit::new, WormholeProver::new, PrivateBatchCircuit::new, PrivateBatchProver::new,
   PublicBatchCircuit::new, PublicBatchProver::new.  With all other arguments valid (supported proof
   counts, matching inner circuit data, a valid dummy template) the only source of Err is the config
   policy, which runs first; the build itself is outside the model. *)
Definition constructor_result (which : Z) (c : Config) : res unit := validate_circuit_config c.

(* ---------------------------------------------------------------- canonical configs *)

Definition zbool (z : Z) : bool := negb (z =? 0).

Definition cfg_std : Config :=
  mkConfig CFG_STD_NUM_WIRES CFG_STD_NUM_ROUTED_WIRES CFG_STD_SECURITY_BITS CFG_STD_NUM_CHALLENGES
    (zbool CFG_STD_ZERO_KNOWLEDGE) CFG_STD_MAX_QUOTIENT_DEGREE_FACTOR CFG_STD_RATE_BITS CFG_STD_CAP_HEIGHT
    CFG_STD_NUM_QUERY_ROUNDS.
Definition cfg_stdzk : Config :=
  mkConfig CFG_STDZK_NUM_WIRES CFG_STDZK_NUM_ROUTED_WIRES CFG_STDZK_SECURITY_BITS CFG_STDZK_NUM_CHALLENGES
    (zbool CFG_STDZK_ZERO_KNOWLEDGE) CFG_STDZK_MAX_QUOTIENT_DEGREE_FACTOR CFG_STDZK_RATE_BITS CFG_STDZK_CAP_HEIGHT
    CFG_STDZK_NUM_QUERY_ROUNDS.
Definition cfg_leaf : Config :=
  mkConfig CFG_LEAF_NUM_WIRES CFG_LEAF_NUM_ROUTED_WIRES CFG_LEAF_SECURITY_BITS CFG_LEAF_NUM_CHALLENGES
    (zbool CFG_LEAF_ZERO_KNOWLEDGE) CFG_LEAF_MAX_QUOTIENT_DEGREE_FACTOR CFG_LEAF_RATE_BITS CFG_LEAF_CAP_HEIGHT
    CFG_LEAF_NUM_QUERY_ROUNDS.
Definition cfg_private_batch : Config :=
  mkConfig CFG_PRIV_NUM_WIRES CFG_PRIV_NUM_ROUTED_WIRES CFG_PRIV_SECURITY_BITS CFG_PRIV_NUM_CHALLENGES
    (zbool CFG_PRIV_ZERO_KNOWLEDGE) CFG_PRIV_MAX_QUOTIENT_DEGREE_FACTOR CFG_PRIV_RATE_BITS CFG_PRIV_CAP_HEIGHT
    CFG_PRIV_NUM_QUERY_ROUNDS.
Definition cfg_public_batch : Config :=
  mkConfig CFG_PUB_NUM_WIRES CFG_PUB_NUM_ROUTED_WIRES CFG_PUB_SECURITY_BITS CFG_PUB_NUM_CHALLENGES
    (zbool CFG_PUB_ZERO_KNOWLEDGE) CFG_PUB_MAX_QUOTIENT_DEGREE_FACTOR CFG_PUB_RATE_BITS CFG_PUB_CAP_HEIGHT
    CFG_PUB_NUM_QUERY_ROUNDS.

Definition canonical_configs : list Config :=
  [cfg_std; cfg_stdzk; cfg_leaf; cfg_private_batch; cfg_public_batch].

(* ---------------------------------------------------------------- memprof CLI (AggConfigArgs) *)

Record Args := mkArgs {
  a_zk_mode : option bool;                 (* Some true = rowblinding, Some false = disabled *)
  a_rate_bits : option Z;
  a_cap_height : option Z;
  a_num_wires : option Z;
  a_num_routed_wires : option Z;
  a_max_quotient_degree_factor : option Z;
  a_num_query_rounds : option Z;
  a_security_bits : option Z;
  a_num_challenges : option Z;
  a_allow_weakening_security : bool }.

Definition is_some {A} (o : option A) : bool := match o with Some _ => true | None => false end.
Definition unwrap_or (o : option Z) (d : Z) : Z := match o with Some v => v | None => d end.
(* `v == Some(0)` *)
Definition is_some_zero (o : option Z) : bool := match o with Some v => v =? 0 | None => false end.
(* `if let Some(v) = o { if !(ok v) { return Err } }` *)
Definition check_opt (o : option Z) (ok : Z -> bool) (code : Z) : res unit :=
  match o with Some v => guard (ok v) code | None => Ok tt end.

(* the baseline of both validate and build: wormhole_private_batch_circuit_config() *)
Definition baseline : Config := cfg_private_batch.

(* memprof/src/config.rs:154 *)
Definition cli_validate (a : Args) : res unit :=
  _ <-? guard (negb (existsb is_some_zero
          [a_rate_bits a; a_cap_height a; a_num_wires a; a_num_routed_wires a;
           a_max_quotient_degree_factor a; a_num_query_rounds a; a_security_bits a; a_num_challenges a])) 20 ;;
  _ <-? check_opt (a_rate_bits a) (fun v => v <=? MAX_RATE_BITS) 21 ;;
  _ <-? check_opt (a_cap_height a) (fun v => v <=? MAX_CAP_HEIGHT) 22 ;;
  let effective_rate := unwrap_or (a_rate_bits a) (c_rate_bits baseline) in
  let effective_quotient := unwrap_or (a_max_quotient_degree_factor a) (c_max_quotient_degree_factor baseline) in
  let quotient_degree_bits := log2_ceil (Z.max effective_quotient 1) in
  _ <-? guard (negb (effective_rate <? quotient_degree_bits)) 23 ;;
  _ <-? check_opt (a_num_wires a) (fun v => negb (v <? MIN_NUM_WIRES)) 24 ;;
  _ <-? check_opt (a_max_quotient_degree_factor a) (fun v => negb (v <? MIN_MAX_QUOTIENT_DEGREE_FACTOR)) 25 ;;
  _ <-? check_opt (a_num_routed_wires a) (fun routed => negb (routed <? MIN_NUM_ROUTED_WIRES)) 26 ;;
  _ <-? check_opt (a_num_routed_wires a)
          (fun routed => negb (unwrap_or (a_num_wires a) (c_num_wires baseline) <? routed)) 27 ;;
  let violations :=
    (match a_zk_mode a with Some false => true | _ => false end)
    || is_some (a_num_query_rounds a) || is_some (a_security_bits a) || is_some (a_num_challenges a) in
  _ <-? guard (negb (violations && negb (a_allow_weakening_security a))) 28 ;;
  Ok tt.

(* usize::div_ceil *)
Definition div_ceil (a b : Z) : Z := if 0 <? a mod b then a / b + 1 else a / b.

(* memprof/src/config.rs:267 (total: `v.max(1)` guards the division) *)
Definition cli_build (a : Args) : Config :=
  let cfg := baseline in
  let zk := match a_zk_mode a with Some m => m | None => c_zero_knowledge cfg end in
  let original_rate := c_rate_bits cfg in
  let original_queries := c_num_query_rounds cfg in
  let original_product := wrap64 (original_rate * original_queries) in
  let rate := unwrap_or (a_rate_bits a) original_rate in
  let queries1 := match a_rate_bits a with
                  | Some v => div_ceil original_product (Z.max v 1)
                  | None => original_queries end in
  mkConfig
    (unwrap_or (a_num_wires a) (c_num_wires cfg))
    (unwrap_or (a_num_routed_wires a) (c_num_routed_wires cfg))
    (unwrap_or (a_security_bits a) (c_security_bits cfg))
    (unwrap_or (a_num_challenges a) (c_num_challenges cfg))
    zk
    (unwrap_or (a_max_quotient_degree_factor a) (c_max_quotient_degree_factor cfg))
    rate
    (unwrap_or (a_cap_height a) (c_cap_height cfg))
    (unwrap_or (a_num_query_rounds a) queries1).

(* ---------------------------------------------------------------- encodings for the correspondence *)

Definition enc_unit (r : res unit) : list Z :=
  match r with Ok _ => [1] | Err c => if c =? PANIC then [PANIC] else [0] end.

Definition zofb (b : bool) : Z := if b then 1 else 0.

Definition enc_config (c : Config) : list Z :=
  [c_num_wires c; c_num_routed_wires c; c_security_bits c; c_num_challenges c; zofb (c_zero_knowledge c);
   c_max_quotient_degree_factor c; c_rate_bits c; c_cap_height c; c_num_query_rounds c].

Definition nthz (l : list Z) (i : nat) : Z := nth i l 0.

(* segment of nine integers, in the order of [enc_config] *)
Definition dec_config (l : list Z) : Config :=
  mkConfig (nthz l 0) (nthz l 1) (nthz l 2) (nthz l 3) (zbool (nthz l 4)) (nthz l 5) (nthz l 6) (nthz l 7) (nthz l 8).

(* (present, value) pair at positions i, i+1 *)
Definition dec_opt (l : list Z) (i : nat) : option Z :=
  if nthz l i =? 0 then None else Some (nthz l (S i)).

(* [zk; allow; p_rate; rate; p_cap; cap; p_wires; wires; p_routed; routed; p_q; q; p_queries; queries;
    p_sec; sec; p_chal; chal]   zk: 0 unset, 1 rowblinding, 2 disabled *)
Definition dec_args (l : list Z) : Args :=
  mkArgs
    (if nthz l 0 =? 1 then Some true else if nthz l 0 =? 2 then Some false else None)
    (dec_opt l 2) (dec_opt l 4) (dec_opt l 6) (dec_opt l 8) (dec_opt l 10) (dec_opt l 12) (dec_opt l 14)
    (dec_opt l 16)
    (zbool (nthz l 1)).

Definition config_dispatch (fid : Z) (args : list (list Z)) : list Z :=
  let seg i := nth i args [] in
  if fid =? 2801 then enc_unit (validate_circuit_config (dec_config (seg 0%nat)))
  else if fid =? 2802 then enc_unit (constructor_result (nthz (seg 0%nat) 0) (dec_config (seg 1%nat)))
  else if fid =? 2803 then
    let a := dec_args (seg 0%nat) in
    enc_unit (cli_validate a) ++ enc_config (cli_build a)
  else if fid =? 2804 then
    match nth_error canonical_configs (Z.to_nat (nthz (seg 0%nat) 0)) with
    | Some c => 1 :: enc_config c ++ enc_unit (validate_circuit_config c)
    | None => [0]
    end
  else [-2].
