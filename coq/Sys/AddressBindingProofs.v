(* Proofs about the address-binding model (C18). *)
From V.Base Require Import Common.
From V.Generated Require Import Constants.
From V.Sys Require Import AddressBinding.

Local Open Scope Z_scope.

Lemma guard_ok b c : guard b c = Ok tt <-> b = true.
Proof. unfold guard. destruct b; split; intro; try reflexivity; discriminate. Qed.

Lemma prefix_ok l n a : 0 <= n -> (prefix l n = Ok a <-> n <= zlen l /\ a = firstn (Z.to_nat n) l).
Proof.
  intro Hn. unfold prefix. destruct (Z.leb_spec n (zlen l)); split.
  - intro E; inversion E; auto.
  - intros [_ ->]; reflexivity.
  - discriminate.
  - intros [X _]; lia.
Qed.

Section Proofs.
  Variable P : Type.
  Variable pis : P -> list Z.
  Variable verifies : P -> bool.
  Notation verify := (verify P pis verifies).
  Notation prove_batch := (prove_batch P pis verifies).

  Definition exposed_address (pf : P) : list Z := firstn (Z.to_nat PUBLIC_AGGREGATOR_ADDRESS_LEN) (pis pf).

  Lemma verify_ok_inv c pf u :
    verify c pf = Ok u ->
    zlen (pis pf) = c_expected_len c /\ exposed_address pf = c_addr c /\ verifies pf = true.
  Proof.
    unfold AddressBinding.verify, rbind. intro H.
    destruct (Z.eqb_spec (zlen (pis pf)) (c_expected_len c)) as [E|N]; cbn [guard] in H; [|discriminate].
    destruct (prefix (pis pf) PUBLIC_AGGREGATOR_ADDRESS_LEN) as [a|e] eqn:Ea; [|discriminate].
    apply prefix_ok in Ea; [|unfold PUBLIC_AGGREGATOR_ADDRESS_LEN; lia]. destruct Ea as [_ ->].
    destruct (list_eqb _ (c_addr c)) eqn:El; cbn [guard] in H; [|discriminate].
    apply list_eqb_spec in El.
    destruct (verifies pf); cbn [guard] in H; [|discriminate].
    unfold exposed_address. auto.
  Qed.

  Lemma verify_iff c pf : length (c_addr c) = Z.to_nat PUBLIC_AGGREGATOR_ADDRESS_LEN ->
    (verify c pf = Ok tt <->
     zlen (pis pf) = c_expected_len c /\ exposed_address pf = c_addr c /\ verifies pf = true).
  Proof.
    intro La. split; [apply verify_ok_inv|].
    intros (E & A & V). unfold AddressBinding.verify, rbind.
    rewrite E, Z.eqb_refl. cbn [guard].
    assert (Hlen : PUBLIC_AGGREGATOR_ADDRESS_LEN <= zlen (pis pf)).
    { unfold exposed_address in A. rewrite <- A in La. rewrite firstn_length in La.
      unfold zlen, PUBLIC_AGGREGATOR_ADDRESS_LEN in *. lia. }
    unfold prefix. destruct (Z.leb_spec PUBLIC_AGGREGATOR_ADDRESS_LEN (zlen (pis pf))); [|lia].
    unfold exposed_address in A. rewrite A.
    replace (list_eqb (c_addr c) (c_addr c)) with true by (symmetry; apply list_eqb_spec; reflexivity).
    cbn [guard]. rewrite V. reflexivity.
  Qed.

  (* wrong length: rejected with the length error, whatever the proof *)
  Lemma verify_wrong_length c pf : zlen (pis pf) <> c_expected_len c -> verify c pf = Err E_LEN.
  Proof.
    intro N. unfold AddressBinding.verify, rbind.
    destruct (Z.eqb_spec (zlen (pis pf)) (c_expected_len c)); [contradiction|reflexivity].
  Qed.

  (* a different exposed address: rejected with the ADDRESS error - the cryptographic verdict is not even consulted *)
  Lemma verify_other_address c pf : PUBLIC_AGGREGATOR_ADDRESS_LEN <= c_expected_len c ->
    zlen (pis pf) = c_expected_len c -> exposed_address pf <> c_addr c ->
    verify c pf = Err E_ADDR.
  Proof.
    intros Hx E N. unfold AddressBinding.verify, rbind. rewrite E, Z.eqb_refl. cbn [guard].
    unfold prefix. destruct (Z.leb_spec PUBLIC_AGGREGATOR_ADDRESS_LEN (zlen (pis pf))); [|lia].
    destruct (list_eqb _ (c_addr c)) eqn:El; [apply list_eqb_spec in El; contradiction|reflexivity].
  Qed.

  Lemma verify_no_panic c pf : PUBLIC_AGGREGATOR_ADDRESS_LEN <= c_expected_len c -> verify c pf <> Err PANIC.
  Proof.
    intros Hx. unfold AddressBinding.verify, rbind.
    destruct (Z.eqb_spec (zlen (pis pf)) (c_expected_len c)) as [E|N]; cbn [guard]; [|discriminate].
    unfold prefix. destruct (Z.leb_spec PUBLIC_AGGREGATOR_ADDRESS_LEN (zlen (pis pf))); [|lia].
    destruct (list_eqb _ _); cbn [guard]; [|discriminate].
    destruct (verifies pf); cbn [guard]; discriminate.
  Qed.

  Lemma prove_batch_returns_verified c produce pf :
    prove_batch c produce = Ok pf -> produce = Ok pf /\ verify c pf = Ok tt.
  Proof.
    unfold AddressBinding.prove_batch, rbind. destruct produce as [q|e]; [|discriminate].
    destruct (verify c q) as [[]|e] eqn:Ev; [|discriminate].
    intro H. inversion H; subst. auto.
  Qed.

  Lemma prove_batch_iff c produce pf :
    prove_batch c produce = Ok pf <-> produce = Ok pf /\ verify c pf = Ok tt.
  Proof.
    split; [apply prove_batch_returns_verified|].
    intros [-> V]. unfold AddressBinding.prove_batch, rbind. rewrite V. reflexivity.
  Qed.
End Proofs.
