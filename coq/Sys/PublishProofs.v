(* Proofs about the publication model (C23).

   The state space is finite: a run of [commit_staging_dir_impl] performs at most [MAX_RENAMES] = 3
   renames and [MAX_REMOVES] = 1 removal, so only the first three rename faults and the first remove
   fault of an arbitrary (unbounded) fault vector are ever consumed ([run_publish_norm], proved for all
   lists).  The safety predicate is then evaluated inside Coq on every normalised vector
   ([all_safe], 3 * 4^3 * 6 runs) and lifted to all vectors. *)
From V.Base Require Import Common.
From V.Sys Require Import Publish.

(* ---------------------------------------------------------------- decidable equality on the small types *)

Definition ceqb (a b : content) : bool := enc_content a =? enc_content b.
Lemma ceqb_spec a b : reflect (a = b) (ceqb a b).
Proof. destruct a, b; cbv; constructor; congruence. Qed.

Definition veqb (a b : verdict) : bool := enc_verdict a =? enc_verdict b.
Lemma veqb_spec a b : reflect (a = b) (veqb a b).
Proof. destruct a, b; cbv; constructor; congruence. Qed.

(* ---------------------------------------------------------------- the property as a predicate on one run *)

Definition valid_init (o : content) : Prop := o = Absent \/ o = Prev \/ o = File.

(* [o] = what the output path held before the run (the "previous set": nothing, the previous artifact
   directory, or the operator's file); [r] = the observation when the process returned or died. *)
Definition safe (o : content) (r : obs) : Prop :=
  let s := o_fs r in
  (* (a) the output path holds the previous contents, the complete new set, or nothing: never a mix *)
  (f_out s = o \/ f_out s = New \/ f_out s = Absent) /\
  (* (b) if the previous contents are no longer at the output path, the new set is there, or both
         copies survive elsewhere (previous at the aside path, new at the staging path) *)
  (f_out s <> o -> f_out s = New \/ (f_old s = o /\ f_stg s = New)) /\
  (* (c) success is reported only if the new set is live; an error only if it is not *)
  (o_verdict r = VOk -> f_out s = New) /\
  (o_verdict r = VErr -> f_out s <> New).

Definition safe_b (o : content) (r : obs) : bool :=
  let s := o_fs r in
  (ceqb (f_out s) o || ceqb (f_out s) New || ceqb (f_out s) Absent)
  && (ceqb (f_out s) o || ceqb (f_out s) New || (ceqb (f_old s) o && ceqb (f_stg s) New))
  && implb (veqb (o_verdict r) VOk) (ceqb (f_out s) New)
  && implb (veqb (o_verdict r) VErr) (negb (ceqb (f_out s) New)).

Lemma safe_b_ok o r : safe_b o r = true -> safe o r.
Proof.
  unfold safe_b, safe. cbv zeta.
  destruct (ceqb_spec (f_out (o_fs r)) o) as [Ho|Ho];
  destruct (ceqb_spec (f_out (o_fs r)) New) as [Hn|Hn];
  destruct (ceqb_spec (f_out (o_fs r)) Absent) as [Ha|Ha];
  destruct (ceqb_spec (f_old (o_fs r)) o) as [Hold|Hold];
  destruct (ceqb_spec (f_stg (o_fs r)) New) as [Hs|Hs];
  destruct (veqb_spec (o_verdict r) VOk) as [Hv|Hv];
  destruct (veqb_spec (o_verdict r) VErr) as [He|He];
  cbn; intro H; try discriminate H;
  (repeat split; intros; try congruence; auto).
Qed.

(* ---------------------------------------------------------------- enumeration and the bound *)

Definition MAX_RENAMES : nat := 3.
Definition MAX_REMOVES : nat := 1.

Definition all_inits : list content := [Absent; Prev; File].
Definition all_rf : list rfault := [ROk; RFail; RCrashBefore; RCrashAfter].
Definition all_mf : list mfault := [MOk; MFail; MFailPartial; MCrashBefore; MCrashPartial; MCrashAfter].
Definition all_gen : list gen_outcome := [GInvalidConfig; GStagingFail; GFail; GCrash; GOk].

(* every rename-fault vector of length exactly MAX_RENAMES, every remove-fault vector of length MAX_REMOVES *)
Definition vecs_rf : list (list rfault) :=
  flat_map (fun a => flat_map (fun b => map (fun c => [a; b; c]) all_rf) all_rf) all_rf.
Definition vecs_mf : list (list mfault) := map (fun m => [m]) all_mf.

(* truncate to the bound, pad with "no fault" *)
Definition norm_rf (rf : list rfault) : list rfault := firstn MAX_RENAMES (rf ++ [ROk; ROk; ROk]).
Definition norm_mf (mf : list mfault) : list mfault := firstn MAX_REMOVES (mf ++ [MOk]).

Lemma all_inits_complete o : valid_init o -> In o all_inits.
Proof. intros [H|[H|H]]; subst; cbn; auto. Qed.
Lemma all_rf_complete a : In a all_rf.
Proof. destruct a; cbn; auto. Qed.
Lemma all_mf_complete a : In a all_mf.
Proof. destruct a; cbn; auto 7. Qed.

Lemma vecs_rf_complete a b c : In [a; b; c] vecs_rf.
Proof.
  unfold vecs_rf. apply in_flat_map. exists a. split; [apply all_rf_complete|].
  apply in_flat_map. exists b. split; [apply all_rf_complete|].
  apply (in_map (fun c0 => [a; b; c0])). apply all_rf_complete.
Qed.

Lemma norm_rf_in rf : In (norm_rf rf) vecs_rf.
Proof.
  destruct rf as [|a [|b [|c rest]]]; cbn; apply vecs_rf_complete.
Qed.
Lemma norm_mf_in mf : In (norm_mf mf) vecs_mf.
Proof.
  destruct mf as [|m rest];
    [change (In ((fun m => [m]) MOk) (map (fun m => [m]) all_mf))
    |change (In ((fun m => [m]) m) (map (fun m => [m]) all_mf))];
    apply in_map; apply all_mf_complete.
Qed.

(* Only the first MAX_RENAMES rename faults and the first MAX_REMOVES remove fault of an arbitrary
   fault vector are consumed (a shorter vector behaves like one padded with "no fault"). *)
Lemma run_publish_norm o rf mf :
  valid_init o -> run_publish o rf mf = run_publish o (norm_rf rf) (norm_mf mf).
Proof.
  intros [H|[H|H]]; subst o;
    destruct rf as [|a [|b [|c rest]]];
    try destruct a; try destruct b; try destruct c;
    destruct mf as [|m rest']; try destruct m; reflexivity.
Qed.

Lemma run_publish_firstn o rf mf :
  valid_init o -> run_publish o rf mf = run_publish o (firstn MAX_RENAMES rf) (firstn MAX_REMOVES mf).
Proof.
  intros [H|[H|H]]; subst o;
    destruct rf as [|a [|b [|c rest]]];
    try destruct a; try destruct b; try destruct c;
    destruct mf as [|m rest']; try destruct m; reflexivity.
Qed.

(* the bound on the number of rename calls, for every vector; [renames_bound_tight] shows 3 is reached *)
Definition within_bound_b (r : obs) : bool := (renames_used r <=? MAX_RENAMES)%nat.

(* ---------------------------------------------------------------- exhaustive evaluation inside Coq *)

Definition check_all (P : content -> obs -> bool) : bool :=
  forallb (fun o => forallb (fun rf => forallb (fun mf => P o (run_publish o rf mf)) vecs_mf) vecs_rf) all_inits.

Lemma check_all_lift (P : content -> obs -> bool) :
  check_all P = true ->
  forall o rf mf, valid_init o -> P o (run_publish o rf mf) = true.
Proof.
  unfold check_all. intros H o rf mf Ho.
  rewrite (run_publish_norm o rf mf Ho).
  rewrite forallb_forall in H. specialize (H o (all_inits_complete o Ho)).
  rewrite forallb_forall in H. specialize (H (norm_rf rf) (norm_rf_in rf)).
  rewrite forallb_forall in H. exact (H (norm_mf mf) (norm_mf_in mf)).
Qed.

Lemma all_safe : check_all safe_b = true.
Proof. vm_compute. reflexivity. Qed.

Lemma all_within_bound : check_all (fun _ r => within_bound_b r) = true.
Proof. vm_compute. reflexivity. Qed.

Lemma publish_safe o rf mf : valid_init o -> safe o (run_publish o rf mf).
Proof. intro Ho. apply safe_b_ok. apply (check_all_lift safe_b all_safe); exact Ho. Qed.

Lemma publish_renames_bound o rf mf : valid_init o -> (renames_used (run_publish o rf mf) <= MAX_RENAMES)%nat.
Proof.
  intro Ho. apply Nat.leb_le.
  exact (check_all_lift (fun _ r => within_bound_b r) all_within_bound o rf mf Ho).
Qed.

Lemma publish_no_partial_output o rf mf :
  valid_init o ->
  f_out (o_fs (run_publish o rf mf)) <> PartPrev /\ f_out (o_fs (run_publish o rf mf)) <> PartNew.
Proof.
  intro Ho. destruct (publish_safe o rf mf Ho) as [Ha _].
  destruct Ho as [H|[H|H]]; subst o; split; intro E; rewrite E in Ha;
    destruct Ha as [Ha|[Ha|Ha]]; discriminate Ha.
Qed.

Lemma publish_success_iff_live o rf mf :
  valid_init o ->
  o_verdict (run_publish o rf mf) <> VCrashed ->
  (o_verdict (run_publish o rf mf) = VOk <-> f_out (o_fs (run_publish o rf mf)) = New).
Proof.
  intros Ho Hc. destruct (publish_safe o rf mf Ho) as [_ [_ [Hok Herr]]].
  split; [exact Hok|]. intro Hn.
  destruct (o_verdict (run_publish o rf mf)); [reflexivity| |congruence].
  exfalso. apply Herr; [reflexivity|exact Hn].
Qed.

(* the staged set is discarded only when the output path (still / again) holds its previous contents;
   in particular a first publication never loses the only copy *)
Definition kept_b (o : content) (r : obs) : bool :=
  let s := o_fs r in
  ceqb (f_out s) New || ceqb (f_stg s) New || (negb (ceqb o Absent) && ceqb (f_out s) o).

Lemma all_kept : check_all kept_b = true.
Proof. vm_compute. reflexivity. Qed.

Lemma publish_new_set_not_lost o rf mf :
  valid_init o ->
  let s := o_fs (run_publish o rf mf) in
  f_out s = New \/ f_stg s = New \/ (o <> Absent /\ f_out s = o).
Proof.
  intro Ho. cbv zeta.
  pose proof (check_all_lift kept_b all_kept o rf mf Ho) as H. unfold kept_b in H. cbv zeta in H.
  destruct (ceqb_spec (f_out (o_fs (run_publish o rf mf))) New) as [Hn|Hn]; [left; exact Hn|].
  destruct (ceqb_spec (f_stg (o_fs (run_publish o rf mf))) New) as [Hs|Hs]; [right; left; exact Hs|].
  destruct (ceqb_spec o Absent) as [Ha|Ha]; [discriminate H|].
  destruct (ceqb_spec (f_out (o_fs (run_publish o rf mf))) o) as [Hp|Hp]; [|discriminate H].
  right; right; split; assumption.
Qed.

(* a staging path that is not a directory is refused before anything is touched, whatever is at the
   output path and whatever the faults *)
Lemma commit_rejects_non_directory_staging o s0 rf mf :
  s0 = Absent \/ s0 = File ->
  run_commit o s0 rf mf = mkObs VErr (mkFs o s0 Absent) [].
Proof. intros [H|H]; subst s0; reflexivity. Qed.

(* ---------------------------------------------------------------- generate_all_circuit_binaries *)

Lemma generate_ok_is_publish o rf mf : run_generate o GOk rf mf = run_publish o rf mf.
Proof. reflexivity. Qed.

Definition remove_works (mf : list mfault) : Prop :=
  match mf with [] => True | m :: _ => m = MOk end.

Lemma generate_failed o g rf mf :
  g = GInvalidConfig \/ g = GStagingFail \/ g = GFail ->
  let r := run_generate o g rf mf in
  f_out (o_fs r) = o /\ f_old (o_fs r) = Absent /\ o_verdict r <> VOk /\ o_trace r = [] /\
  (f_stg (o_fs r) = Absent \/ f_stg (o_fs r) = PartNew) /\
  (remove_works mf -> o_verdict r = VErr /\ f_stg (o_fs r) = Absent).
Proof.
  intros [H|[H|H]]; subst g; cbv zeta.
  - cbn. repeat split; auto; discriminate.
  - cbn. repeat split; auto; discriminate.
  - destruct mf as [|m rest]; [|destruct m]; cbn;
      (repeat split; auto; try discriminate; intro W; inversion W).
Qed.

Lemma generate_crashed o rf mf :
  let r := run_generate o GCrash rf mf in
  f_out (o_fs r) = o /\ f_old (o_fs r) = Absent /\ o_verdict r = VCrashed /\ o_trace r = [].
Proof. cbn. auto. Qed.

Lemma generate_safe o g rf mf : valid_init o -> safe o (run_generate o g rf mf).
Proof.
  intro Ho. destruct g.
  - destruct Ho as [H|[H|H]]; subst o; apply safe_b_ok; reflexivity.
  - destruct Ho as [H|[H|H]]; subst o; apply safe_b_ok; reflexivity.
  - destruct Ho as [H|[H|H]]; subst o; destruct mf as [|m rest]; try destruct m; apply safe_b_ok; reflexivity.
  - destruct Ho as [H|[H|H]]; subst o; apply safe_b_ok; reflexivity.
  - rewrite generate_ok_is_publish. apply publish_safe. exact Ho.
Qed.

(* "no staging directory behind" cannot hold when the removal of the partial stage itself fails *)
Lemma generate_failed_staging_left :
  exists o mf, valid_init o /\
    o_verdict (run_generate o GFail [] mf) = VErr /\ f_stg (o_fs (run_generate o GFail [] mf)) <> Absent.
Proof.
  exists Prev, [MFail]. split; [right; left; reflexivity|]. split; [reflexivity|discriminate].
Qed.

(* a process that dies right after the swap-in leaves the new set live without having reported anything *)
Lemma crash_after_swap_in_live_unreported :
  exists o rf, valid_init o /\
    o_verdict (run_publish o rf []) = VCrashed /\ f_out (o_fs (run_publish o rf [])) = New.
Proof.
  exists Prev, [ROk; RCrashAfter]. split; [right; left; reflexivity|]. split; reflexivity.
Qed.
