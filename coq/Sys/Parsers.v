(* Executable model of the public-input parsers (C24) and of the proof-count / layout
   arithmetic (C29).
     wormhole/inputs/src/lib.rs   : validate_proof_count, public_batch_pi::{pi_len,try_pi_len},
                                    PublicCircuitInputs/PrivateBatchPublicInputs/PublicBatchPublicInputs
                                    ::try_from_u64_slice
     wormhole/circuit/src/inputs.rs: the two try_from_felts
   Inputs are lists of u64 values (Z in [0, 2^64)).  [Err (-1)] is the model's rendering of a Rust
   panic (slice index out of range); the theorems show it is unreachable. *)
From V.Base Require Import Common.
From V.Generated Require Import Constants.

Definition PANIC : Z := -1.

Definition get (l : list Z) (i : nat) : res Z :=
  match nth_error l i with Some v => Ok v | None => Err PANIC end.
(* &l[a .. a+n] *)
Definition slice (l : list Z) (a n : nat) : res (list Z) :=
  if (a + n <=? length l)%nat then Ok (firstn n (skipn a l)) else Err PANIC.

(* &l[a .. b] *)
Definition slice_range (l : list Z) (a b : nat) : res (list Z) :=
  if (a <=? b)%nat then slice l a (b - a) else Err PANIC.
(* a Rust usize constant used as an index *)
Definition ix (c : Z) : nat := Z.to_nat c.

Definition u32 (x : Z) : res Z := _ <-? guard (is_u32 x) 3 ;; Ok x.

(* BytesDigest::try_from: every 8-byte chunk below the (private) GOLDILOCKS_ORDER of wormhole/inputs *)
Definition is_canon_in (x : Z) : bool := (0 <=? x) && (x <? INPUTS_GOLDILOCKS_ORDER).

(* hash_u64s_to_bytes_digest: exactly 4 limbs, each below the Goldilocks order *)
Definition digest4 (l : list Z) : res (list Z) :=
  _ <-? guard (length l =? 4)%nat 1 ;;
  _ <-? guard (forallb is_canon_in l) 2 ;;
  Ok l.

Definition get_u32 (l : list Z) (i : nat) : res Z := x <-? get l i ;; u32 x.
Definition get_digest (l : list Z) (a : nat) : res (list Z) := s <-? slice l a 4 ;; digest4 s.
Definition get_digest_range (l : list Z) (a b : nat) : res (list Z) := s <-? slice_range l a b ;; digest4 s.

(* ---------------------------------------------------------------- proof counts (C29) *)

Definition validate_proof_count (count : Z) : res unit :=
  _ <-? guard (negb (count =? 0)) 40 ;;
  _ <-? guard (count <=? MAX_PROOF_COUNT) 41 ;;
  Ok tt.

Definition wrap64 (x : Z) : Z := x mod two64.
(* usize::checked_mul / checked_add on a 64-bit target *)
Definition checked_mul (a b : Z) : option Z := if a * b <? two64 then Some (a * b) else None.
Definition checked_add (a b : Z) : option Z := if a + b <? two64 then Some (a + b) else None.

(* public_batch_pi::pi_len in a release build: every * and + wraps *)
Definition pi_len_wrapping (m n : Z) : Z :=
  let slots := wrap64 (n * 2) in
  let exit_felts := wrap64 (wrap64 (m * slots) * PUBLIC_EXIT_SLOT_LEN) in
  let null_felts := wrap64 (wrap64 (m * n) * 4) in
  wrap64 (wrap64 (PUBLIC_HEADER_LEN + exit_felts) + null_felts).

Definition try_pi_len (m n : Z) : option Z :=
  match checked_mul n 2 with
  | None => None
  | Some slots =>
    match checked_mul m slots with
    | None => None
    | Some v =>
      match checked_mul v PUBLIC_EXIT_SLOT_LEN with
      | None => None
      | Some exit_felts =>
        match checked_mul m n with
        | None => None
        | Some w =>
          match checked_mul w 4 with
          | None => None
          | Some null_felts =>
            match checked_add PUBLIC_HEADER_LEN exit_felts with
            | None => None
            | Some t => checked_add t null_felts
            end
          end
        end
      end
    end
  end.

(* the mathematically intended length, no machine arithmetic *)
Definition pi_len_exact (m n : Z) : Z := 12 + m * (2 * n) * 5 + m * n * 4.

(* private_batch/circuit/constants.rs  aggregated_output::*  (unchecked usize arithmetic: wraps in release) *)
Definition pr_exit_slots_count (n : Z) : Z := wrap64 (n * 2).
Definition pr_nullifiers_count (n : Z) : Z := n.
Definition pr_exit_slots_start : Z := PR_OUT_HEADER_LEN.
Definition pr_nullifiers_start (n : Z) : Z :=
  wrap64 (PR_OUT_HEADER_LEN + wrap64 (pr_exit_slots_count n * PR_OUT_EXIT_SLOT_LEN)).
Definition pr_pi_len (n : Z) : Z := wrap64 (wrap64 (PR_LEAF_PI_LEN * n) + 8).

(* public_batch/circuit/constants.rs *)
Definition pu_total_exit_slots (m n : Z) : Z := wrap64 (m * pr_exit_slots_count n).
Definition pu_total_nullifiers (m n : Z) : Z := wrap64 (m * pr_nullifiers_count n).
Definition pu_exit_slots_start : Z := PU_HEADER_LEN.
Definition pu_nullifiers_start (m n : Z) : Z :=
  wrap64 (PU_HEADER_LEN + wrap64 (pu_total_exit_slots m n * PR_OUT_EXIT_SLOT_LEN)).
Definition pu_pi_len (m n : Z) : Z :=
  wrap64 (wrap64 (PU_HEADER_LEN + wrap64 (pu_total_exit_slots m n * PR_OUT_EXIT_SLOT_LEN))
          + wrap64 (pu_total_nullifiers m n * 4)).

(* CircuitBinsConfig::validate - the accepted set of (num_leaf_proofs, num_private_batch_proofs);
   this is also what CircuitBinsConfig::new and ::load accept (the JSON text is not modelled) *)
Definition config_accepts (num_leaf : Z) (num_private_batch : option Z) : bool :=
  is_ok (validate_proof_count num_leaf) &&
  match num_private_batch with None => true | Some n => is_ok (validate_proof_count n) end.

(* every entry point that takes per-layer counts: accepted iff each count validates *)
Definition counts_accept (cs : list Z) : bool := forallb (fun c => is_ok (validate_proof_count c)) cs.

(* ---------------------------------------------------------------- leaf (21 felts) *)

Record LeafPI := mkLeafPI {
  l_asset : Z; l_out1 : Z; l_out2 : Z; l_fee : Z;
  l_null : list Z; l_exit1 : list Z; l_exit2 : list Z; l_bh : list Z; l_bn : Z }.

Definition parse_leaf_u64 (pis : list Z) : res LeafPI :=
  _ <-? guard (zlen pis =? LEAF_PI_LEN) 10 ;;
  a <-? get_u32 pis (ix IDX_ASSET_ID) ;;
  o1 <-? get_u32 pis (ix IDX_OUTPUT_AMOUNT_1) ;;
  o2 <-? get_u32 pis (ix IDX_OUTPUT_AMOUNT_2) ;;
  fee <-? get_u32 pis (ix IDX_VOLUME_FEE_BPS) ;;
  nl <-? get_digest_range pis (ix IDX_NULLIFIER_START) (ix IDX_NULLIFIER_END) ;;
  e1 <-? get_digest_range pis (ix IDX_EXIT_1_START) (ix IDX_EXIT_1_END) ;;
  e2 <-? get_digest_range pis (ix IDX_EXIT_2_START) (ix IDX_EXIT_2_END) ;;
  bh <-? get_digest_range pis (ix IDX_BLOCK_HASH_START) (ix IDX_BLOCK_HASH_END) ;;
  bn <-? get_u32 pis (ix IDX_BLOCK_NUMBER) ;;
  Ok (mkLeafPI a o1 o2 fee nl e1 e2 bh bn).

(* GoldilocksField::to_canonical_u64 of a raw (possibly non-canonical) inner u64: one conditional
   subtraction of the plonky2 field order *)
Definition to_canonical (raw : Z) : Z := if FIELD_ORDER <=? raw then raw - FIELD_ORDER else raw.

(* try_4_felts_to_bytes on canonical values: only the length can fail *)
Definition felts4 (l : list Z) : res (list Z) :=
  _ <-? guard (length l =? 4)%nat 1 ;; Ok l.
Definition get_felts4 (l : list Z) (a : nat) : res (list Z) := s <-? slice l a 4 ;; felts4 s.
Definition get_felts4_range (l : list Z) (a b : nat) : res (list Z) := s <-? slice_range l a b ;; felts4 s.

(* the felt-based leaf parser, on the canonical values of its felts *)
Definition parse_leaf_canon (pis : list Z) : res LeafPI :=
  _ <-? guard (zlen pis =? LEAF_PI_LEN) 10 ;;
  a <-? get_u32 pis (ix IDX_ASSET_ID) ;;
  o1 <-? get_u32 pis (ix IDX_OUTPUT_AMOUNT_1) ;;
  o2 <-? get_u32 pis (ix IDX_OUTPUT_AMOUNT_2) ;;
  fee <-? get_u32 pis (ix IDX_VOLUME_FEE_BPS) ;;
  nl <-? get_felts4_range pis (ix IDX_NULLIFIER_START) (ix IDX_NULLIFIER_END) ;;
  bh <-? get_felts4_range pis (ix IDX_BLOCK_HASH_START) (ix IDX_BLOCK_HASH_END) ;;
  e1 <-? get_felts4_range pis (ix IDX_EXIT_1_START) (ix IDX_EXIT_1_END) ;;
  e2 <-? get_felts4_range pis (ix IDX_EXIT_2_START) (ix IDX_EXIT_2_END) ;;
  bn <-? get_u32 pis (ix IDX_BLOCK_NUMBER) ;;
  Ok (mkLeafPI a o1 o2 fee nl e1 e2 bh bn).
Definition parse_leaf_felts (raw : list Z) : res LeafPI := parse_leaf_canon (map to_canonical raw).

Definition serialize_leaf (s : LeafPI) : list Z :=
  [l_asset s; l_out1 s; l_out2 s; l_fee s] ++ l_null s ++ l_exit1 s ++ l_exit2 s ++ l_bh s ++ [l_bn s].

(* ---------------------------------------------------------------- private batch (8 + 21 n felts) *)

Record Slot := mkSlot { s_sum : Z; s_account : list Z }.
Record PrivPI := mkPrivPI {
  pb_num_exit_slots : Z; pb_asset : Z; pb_fee : Z; pb_bh : list Z; pb_bn : Z;
  pb_slots : list Slot; pb_nulls : list (list Z) }.

(* cursor loops of the u64 parser: [count] records of 5 resp. 4 felts starting at [cur] *)
Fixpoint read_slots (pis : list Z) (cur : nat) (count : nat) : res (list Slot) :=
  match count with
  | O => Ok []
  | S c =>
    _ <-? guard (cur <? length pis)%nat 30 ;;
    s <-? get_u32 pis cur ;;
    _ <-? guard (cur + 1 + 4 <=? length pis)%nat 31 ;;
    a <-? get_digest pis (cur + 1) ;;
    rest <-? read_slots pis (cur + 5) c ;;
    Ok (mkSlot s a :: rest)
  end.
Fixpoint read_digests (pis : list Z) (cur : nat) (count : nat) : res (list (list Z)) :=
  match count with
  | O => Ok []
  | S c =>
    _ <-? guard (cur + 4 <=? length pis)%nat 32 ;;
    d <-? get_digest pis cur ;;
    rest <-? read_digests pis (cur + 4) c ;;
    Ok (d :: rest)
  end.

Definition parse_priv_u64 (pis : list Z) : res PrivPI :=
  let len := length pis in
  _ <-? guard (8 <=? len)%nat 20 ;;
  let payload := (len - 8)%nat in
  _ <-? guard (Z.of_nat payload mod LEAF_PI_LEN =? 0) 21 ;;
  nes <-? get_u32 pis 0 ;;
  asset <-? get_u32 pis 1 ;;
  fee <-? get_u32 pis 2 ;;
  let nz := Z.of_nat payload / LEAF_PI_LEN in
  _ <-? validate_proof_count nz ;;
  let n := Z.to_nat nz in
  _ <-? guard (nes =? nz * 2) 23 ;;
  bh <-? get_digest pis 3 ;;
  bn <-? get_u32 pis 7 ;;
  slots <-? read_slots pis 8 (n * 2) ;;
  nulls <-? read_digests pis (8 + n * 2 * 5) n ;;
  (* the final cursor == expected_felts comparison is between two equal expressions *)
  Ok (mkPrivPI nes asset fee bh bn slots nulls).

(* felt-based parser: chunks(5).take(2n) / chunks(4).take(n); chunk[0], chunk[1..5] index panics *)
Definition felt_slot (chunk : list Z) : res Slot :=
  s <-? get_u32 chunk 0 ;;
  a <-? get_felts4 chunk 1 ;;
  Ok (mkSlot s a).

Definition parse_priv_canon (pis : list Z) : res PrivPI :=
  let len := length pis in
  _ <-? guard (8 <=? len)%nat 20 ;;
  let payload := (len - 8)%nat in
  _ <-? guard (Z.of_nat payload mod LEAF_PI_LEN =? 0) 21 ;;
  let nz := Z.of_nat payload / LEAF_PI_LEN in
  _ <-? validate_proof_count nz ;;
  let n := Z.to_nat nz in
  nes <-? get_u32 pis 0 ;;
  _ <-? guard (nes =? nz * 2) 23 ;;
  asset <-? get_u32 pis 1 ;;
  fee <-? get_u32 pis 2 ;;
  bh <-? get_felts4 pis 3 ;;
  bn <-? get_u32 pis 7 ;;
  slots <-? mapM felt_slot (firstn (n * 2) (chunks 5 (skipn 8 pis))) ;;
  nulls <-? mapM felts4 (firstn n (chunks 4 (skipn (8 + n * 2 * 5) pis))) ;;
  Ok (mkPrivPI nes asset fee bh bn slots nulls).
Definition parse_priv_felts (raw : list Z) : res PrivPI := parse_priv_canon (map to_canonical raw).

Definition flat_slot (s : Slot) : list Z := s_sum s :: s_account s.
Definition serialize_priv (s : PrivPI) (padding : list Z) : list Z :=
  [pb_num_exit_slots s; pb_asset s; pb_fee s] ++ pb_bh s ++ [pb_bn s]
  ++ flat_map flat_slot (pb_slots s) ++ concat (pb_nulls s) ++ padding.

(* ---------------------------------------------------------------- public batch (12 + 14 m n felts) *)

Record PubPI := mkPubPI {
  pu_addr : list Z; pu_asset : Z; pu_fee : Z; pu_bh : list Z; pu_bn : Z; pu_total : Z;
  pu_slots : list Slot; pu_nulls : list (list Z) }.

Fixpoint read_slots_unchecked (pis : list Z) (cur : nat) (count : nat) : res (list Slot) :=
  match count with
  | O => Ok []
  | S c =>
    s <-? get_u32 pis cur ;;
    a <-? get_digest pis (cur + 1) ;;
    rest <-? read_slots_unchecked pis (cur + 5) c ;;
    Ok (mkSlot s a :: rest)
  end.
Fixpoint read_digests_unchecked (pis : list Z) (cur : nat) (count : nat) : res (list (list Z)) :=
  match count with
  | O => Ok []
  | S c =>
    d <-? get_digest pis cur ;;
    rest <-? read_digests_unchecked pis (cur + 4) c ;;
    Ok (d :: rest)
  end.

(* m = num_private_batch_proofs, n = num_leaf_proofs: usize values *)
Definition parse_pub_u64 (pis : list Z) (m n : Z) : res PubPI :=
  _ <-? validate_proof_count m ;;
  _ <-? validate_proof_count n ;;
  match try_pi_len m n with
  | None => Err 50
  | Some expected =>
    _ <-? guard (zlen pis =? expected) 51 ;;
    let slots_per_inner := wrap64 (n * 2) in
    match checked_mul m slots_per_inner with
    | None => Err 52
    | Some total =>
      _ <-? guard (is_u32 total) 53 ;;
      addr <-? get_digest_range pis 0 (ix PUBLIC_AGGREGATOR_ADDRESS_LEN) ;;
      asset <-? get_u32 pis 4 ;;
      fee <-? get_u32 pis 5 ;;
      bh <-? get_digest pis 6 ;;
      bn <-? get_u32 pis 10 ;;
      tes <-? get_u32 pis 11 ;;
      _ <-? guard (tes =? total) 54 ;;
      slots <-? read_slots_unchecked pis (ix PUBLIC_HEADER_LEN) (Z.to_nat total) ;;
      match checked_mul m n with
      | None => Err 55
      | Some tn =>
        nulls <-? read_digests_unchecked pis (ix PUBLIC_HEADER_LEN + Z.to_nat total * 5) (Z.to_nat tn) ;;
        Ok (mkPubPI addr asset fee bh bn tes slots nulls)
      end
    end
  end.

Definition serialize_pub (s : PubPI) : list Z :=
  pu_addr s ++ [pu_asset s; pu_fee s] ++ pu_bh s ++ [pu_bn s; pu_total s]
  ++ flat_map flat_slot (pu_slots s) ++ concat (pu_nulls s).

(* ---------------------------------------------------------------- canonical result encodings *)

Definition enc_res {A} (enc : A -> list Z) (r : res A) : list Z :=
  match r with
  | Ok a => 1 :: enc a
  | Err c => if c =? PANIC then [PANIC] else [0]
  end.

Definition enc_leaf (s : LeafPI) : list Z := serialize_leaf s.
Definition enc_priv (s : PrivPI) : list Z := serialize_priv s [].
Definition enc_pub (s : PubPI) : list Z := serialize_pub s.

Definition enc_opt (o : option Z) : list Z := match o with Some v => [1; v] | None => [0] end.

Definition seg (args : list (list Z)) (i : nat) : list Z := nth i args [].
Definition arg (args : list (list Z)) (i j : nat) : Z := nth j (seg args i) 0.

Definition dispatch (fid : Z) (args : list (list Z)) : list Z :=
  if fid =? 2401 then enc_res enc_leaf (parse_leaf_u64 (seg args 0))
  else if fid =? 2402 then enc_res enc_leaf (parse_leaf_felts (seg args 0))
  else if fid =? 2403 then enc_res enc_priv (parse_priv_u64 (seg args 0))
  else if fid =? 2404 then enc_res enc_priv (parse_priv_felts (seg args 0))
  else if fid =? 2405 then enc_res enc_pub (parse_pub_u64 (seg args 0) (arg args 1 0) (arg args 1 1))
  else if fid =? 2901 then enc_res (fun _ => []) (validate_proof_count (arg args 0 0))
  else if fid =? 2902 then enc_opt (try_pi_len (arg args 0 0) (arg args 0 1))
  else if fid =? 2903 then [pi_len_wrapping (arg args 0 0) (arg args 0 1)]
  else if fid =? 2904 then [pr_exit_slots_count (arg args 0 0); pr_nullifiers_count (arg args 0 0); pr_exit_slots_start;
                            pr_nullifiers_start (arg args 0 0); pr_pi_len (arg args 0 0)]
  else if fid =? 2905 then [pu_total_exit_slots (arg args 0 0) (arg args 0 1); pu_total_nullifiers (arg args 0 0) (arg args 0 1);
                            pu_exit_slots_start; pu_nullifiers_start (arg args 0 0) (arg args 0 1);
                            pu_pi_len (arg args 0 0) (arg args 0 1)]
  (* 2910: an entry point taking the counts of segment 1 (segment 0 = entry-point id, ignored by the model) *)
  else if fid =? 2910 then [if counts_accept (seg args 1) then 1 else 0]
  (* 2911: config file round trip (num_leaf; [] | [num_private_batch]; variant): the loaded values, or rejected *)
  else if fid =? 2911 then (if config_accepts (arg args 0 0)
                                  (match seg args 1 with [] => None | x :: _ => Some x end)
                            then 1 :: arg args 0 0 :: seg args 1 else [0])
  else [-2].
