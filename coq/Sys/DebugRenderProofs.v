(* C32 - lemmas about the Debug rendering model (Sys/DebugRender.v).

   The non-interference lemmas are true by construction of the model: debug_<type> does not mention the
   private projections, so rewriting with the agreement on the public ones closes each goal.  What ties the
   model to the implementation is the exact-string correspondence run, not these proofs. *)
From Coq Require Import String Ascii.
From V.Base Require Import Common.
From V.Generated Require Import Constants.
From V.Sys Require Import DebugRender.
Local Open Scope Z_scope.

(* both renderings of two documents *)
Definition same_rendering (d1 d2 : doc) : Prop :=
  render_compact d1 = render_compact d2 /\ render_pretty d1 = render_pretty d2.

Lemma same_rendering_of_eq d1 d2 : d1 = d2 -> same_rendering d1 d2.
Proof. intros ->. split; reflexivity. Qed.

Lemma same_rendering_modes d1 d2 : same_rendering d1 d2 -> forall mode, render mode d1 = render mode d2.
Proof. intros [Hc Hp] mode. unfold render. destruct (mode =? 0); assumption. Qed.

(* ---------------------------------------------------------------- agreement on the public (printed) fields *)
Definition public_agree_PrivateCircuitInputs (a b : PrivateCircuitInputs) : Prop :=
  pi_parent_hash a = pi_parent_hash b /\ pi_state_root a = pi_state_root b /\
  pi_extrinsics_root a = pi_extrinsics_root b /\ pi_zk_tree_root a = pi_zk_tree_root b.

Definition public_agree_ZkLeafData (a b : ZkLeafData) : Prop :=
  lf_asset_id a = lf_asset_id b /\ lf_output_amount_1 a = lf_output_amount_1 b /\
  lf_output_amount_2 a = lf_output_amount_2 b /\ lf_volume_fee_bps a = lf_volume_fee_bps b.

Definition public_agree_ZkMerkleProofData (a b : ZkMerkleProofData) : Prop :=
  mp_root_hash a = mp_root_hash b /\ mp_depth a = mp_depth b /\ mp_is_not_dummy a = mp_is_not_dummy b /\
  public_agree_ZkLeafData (mp_leaf a) (mp_leaf b).

Definition public_agree_HeaderInputs (a b : HeaderInputs) : Prop :=
  hi_parent_hash a = hi_parent_hash b /\ hi_block_number a = hi_block_number b /\
  hi_state_root a = hi_state_root b /\ hi_extrinsics_root a = hi_extrinsics_root b /\
  hi_zk_tree_root a = hi_zk_tree_root b.

(* ---------------------------------------------------------------- the documents are equal *)
Lemma doc_PrivateCircuitInputs a b :
  public_agree_PrivateCircuitInputs a b -> debug_PrivateCircuitInputs a = debug_PrivateCircuitInputs b.
Proof. intros (H1 & H2 & H3 & H4). unfold debug_PrivateCircuitInputs. rewrite H1, H2, H3, H4. reflexivity. Qed.

Lemma doc_CircuitInputs a b :
  ci_public a = ci_public b -> public_agree_PrivateCircuitInputs (ci_private a) (ci_private b) ->
  debug_CircuitInputs a = debug_CircuitInputs b.
Proof.
  intros H1 H2. unfold debug_CircuitInputs. rewrite H1, (doc_PrivateCircuitInputs _ _ H2). reflexivity.
Qed.

Lemma doc_Nullifier a b : nf_hash a = nf_hash b -> debug_Nullifier a = debug_Nullifier b.
Proof. intros H1. unfold debug_Nullifier. rewrite H1. reflexivity. Qed.

Lemma doc_UnspendableAccount a b : debug_UnspendableAccount a = debug_UnspendableAccount b.
Proof. reflexivity. Qed.

Lemma doc_ZkLeafData a b : public_agree_ZkLeafData a b -> debug_ZkLeafData a = debug_ZkLeafData b.
Proof. intros (H1 & H2 & H3 & H4). unfold debug_ZkLeafData. rewrite H1, H2, H3, H4. reflexivity. Qed.

Lemma doc_ZkMerkleProofData a b :
  public_agree_ZkMerkleProofData a b -> debug_ZkMerkleProofData a = debug_ZkMerkleProofData b.
Proof.
  intros (H1 & H2 & H3 & H4). unfold debug_ZkMerkleProofData.
  rewrite H1, H2, H3, (doc_ZkLeafData _ _ H4). reflexivity.
Qed.

Lemma doc_HeaderInputs a b : public_agree_HeaderInputs a b -> debug_HeaderInputs a = debug_HeaderInputs b.
Proof.
  intros (H1 & H2 & H3 & H4 & H5). unfold debug_HeaderInputs. rewrite H1, H2, H3, H4, H5. reflexivity.
Qed.

Lemma doc_BlockHeader a b :
  bh_block_hash a = bh_block_hash b -> public_agree_HeaderInputs (bh_header a) (bh_header b) ->
  debug_BlockHeader a = debug_BlockHeader b.
Proof. intros H1 H2. unfold debug_BlockHeader. rewrite H1, (doc_HeaderInputs _ _ H2). reflexivity. Qed.

Lemma doc_WormholeProver a b :
  option_is_none (wp_targets a) = option_is_none (wp_targets b) -> debug_WormholeProver a = debug_WormholeProver b.
Proof. intros H1. unfold debug_WormholeProver. rewrite H1. reflexivity. Qed.

(* ---------------------------------------------------------------- non-interference, statement by statement *)
Lemma ni_PrivateCircuitInputs : forall a b : PrivateCircuitInputs,
  pi_parent_hash a = pi_parent_hash b -> pi_state_root a = pi_state_root b ->
  pi_extrinsics_root a = pi_extrinsics_root b -> pi_zk_tree_root a = pi_zk_tree_root b ->
  same_rendering (debug_PrivateCircuitInputs a) (debug_PrivateCircuitInputs b).
Proof. intros a b H1 H2 H3 H4. apply same_rendering_of_eq, doc_PrivateCircuitInputs. repeat split; assumption. Qed.

(* the same statement with the constructor spelled out: every private component is universally quantified on
   both sides, the public ones are shared *)
Lemma ni_PrivateCircuitInputs_explicit :
  forall parent_hash state_root extrinsics_root zk_tree_root : list Z,
  forall (secret secret' : list Z) (transfer_count transfer_count' : Z) (unspendable_account unspendable_account' : list Z)
         (digest digest' : list Z) (input_amount input_amount' : Z)
         (siblings siblings' : list (list (list Z))) (positions positions' : list Z),
  same_rendering
    (debug_PrivateCircuitInputs
       (mkPrivateCircuitInputs secret transfer_count unspendable_account parent_hash state_root extrinsics_root
          digest input_amount zk_tree_root siblings positions))
    (debug_PrivateCircuitInputs
       (mkPrivateCircuitInputs secret' transfer_count' unspendable_account' parent_hash state_root extrinsics_root
          digest' input_amount' zk_tree_root siblings' positions')).
Proof. intros. apply same_rendering_of_eq. reflexivity. Qed.

Lemma ni_CircuitInputs : forall a b : CircuitInputs,
  ci_public a = ci_public b ->
  pi_parent_hash (ci_private a) = pi_parent_hash (ci_private b) ->
  pi_state_root (ci_private a) = pi_state_root (ci_private b) ->
  pi_extrinsics_root (ci_private a) = pi_extrinsics_root (ci_private b) ->
  pi_zk_tree_root (ci_private a) = pi_zk_tree_root (ci_private b) ->
  same_rendering (debug_CircuitInputs a) (debug_CircuitInputs b).
Proof.
  intros a b H0 H1 H2 H3 H4. apply same_rendering_of_eq, doc_CircuitInputs; [assumption|]. repeat split; assumption.
Qed.

Lemma ni_Nullifier : forall a b : Nullifier,
  nf_hash a = nf_hash b -> same_rendering (debug_Nullifier a) (debug_Nullifier b).
Proof. intros a b H. apply same_rendering_of_eq, doc_Nullifier, H. Qed.

Lemma ni_UnspendableAccount : forall a b : UnspendableAccount,
  same_rendering (debug_UnspendableAccount a) (debug_UnspendableAccount b).
Proof. intros a b. apply same_rendering_of_eq, doc_UnspendableAccount. Qed.

Lemma ni_ZkLeafData : forall a b : ZkLeafData,
  lf_asset_id a = lf_asset_id b -> lf_output_amount_1 a = lf_output_amount_1 b ->
  lf_output_amount_2 a = lf_output_amount_2 b -> lf_volume_fee_bps a = lf_volume_fee_bps b ->
  same_rendering (debug_ZkLeafData a) (debug_ZkLeafData b).
Proof. intros a b H1 H2 H3 H4. apply same_rendering_of_eq, doc_ZkLeafData. repeat split; assumption. Qed.

Lemma ni_ZkMerkleProofData : forall a b : ZkMerkleProofData,
  mp_root_hash a = mp_root_hash b -> mp_depth a = mp_depth b -> mp_is_not_dummy a = mp_is_not_dummy b ->
  lf_asset_id (mp_leaf a) = lf_asset_id (mp_leaf b) ->
  lf_output_amount_1 (mp_leaf a) = lf_output_amount_1 (mp_leaf b) ->
  lf_output_amount_2 (mp_leaf a) = lf_output_amount_2 (mp_leaf b) ->
  lf_volume_fee_bps (mp_leaf a) = lf_volume_fee_bps (mp_leaf b) ->
  same_rendering (debug_ZkMerkleProofData a) (debug_ZkMerkleProofData b).
Proof.
  intros a b H1 H2 H3 H4 H5 H6 H7. apply same_rendering_of_eq, doc_ZkMerkleProofData. repeat split; assumption.
Qed.

Lemma ni_HeaderInputs : forall a b : HeaderInputs,
  hi_parent_hash a = hi_parent_hash b -> hi_block_number a = hi_block_number b ->
  hi_state_root a = hi_state_root b -> hi_extrinsics_root a = hi_extrinsics_root b ->
  hi_zk_tree_root a = hi_zk_tree_root b ->
  same_rendering (debug_HeaderInputs a) (debug_HeaderInputs b).
Proof. intros a b H1 H2 H3 H4 H5. apply same_rendering_of_eq, doc_HeaderInputs. repeat split; assumption. Qed.

Lemma ni_BlockHeader : forall a b : BlockHeader,
  bh_block_hash a = bh_block_hash b ->
  hi_parent_hash (bh_header a) = hi_parent_hash (bh_header b) ->
  hi_block_number (bh_header a) = hi_block_number (bh_header b) ->
  hi_state_root (bh_header a) = hi_state_root (bh_header b) ->
  hi_extrinsics_root (bh_header a) = hi_extrinsics_root (bh_header b) ->
  hi_zk_tree_root (bh_header a) = hi_zk_tree_root (bh_header b) ->
  same_rendering (debug_BlockHeader a) (debug_BlockHeader b).
Proof.
  intros a b H0 H1 H2 H3 H4 H5. apply same_rendering_of_eq, doc_BlockHeader; [assumption|]. repeat split; assumption.
Qed.

Lemma ni_WormholeProver : forall a b : WormholeProver,
  option_is_none (wp_targets a) = option_is_none (wp_targets b) ->
  same_rendering (debug_WormholeProver a) (debug_WormholeProver b).
Proof. intros a b H. apply same_rendering_of_eq, doc_WormholeProver, H. Qed.

(* ---------------------------------------------------------------- the decimal printer really is decimal *)
(* value of a digit string, most significant first *)
Definition undec (s : list Z) : Z := fold_left (fun acc c => 10 * acc + (c - 48)) s 0.

Lemma fold_undec_app s : forall acc,
  fold_left (fun acc c => 10 * acc + (c - 48)) s acc
  = acc * 10 ^ Z.of_nat (List.length s) + fold_left (fun acc c => 10 * acc + (c - 48)) s 0.
Proof.
  induction s as [|c r IH]; intros acc.
  - cbn. lia.
  - cbn [fold_left List.length]. rewrite IH. rewrite (IH (10 * 0 + (c - 48))).
    rewrite Nat2Z.inj_succ, Z.pow_succ_r by lia. lia.
Qed.

Lemma undec_cons c acc : undec (c :: acc) = (c - 48) * 10 ^ Z.of_nat (List.length acc) + undec acc.
Proof. unfold undec. cbn [fold_left]. rewrite fold_undec_app. replace (10 * 0 + (c - 48)) with (c - 48) by lia. reflexivity. Qed.

Lemma dec_go_value : forall fuel n acc,
  0 <= n -> n < 2 ^ Z.of_nat fuel -> (0 < fuel)%nat ->
  undec (dec_go fuel n acc) = n * 10 ^ Z.of_nat (List.length acc) + undec acc.
Proof.
  induction fuel as [|f IH]; intros n acc Hn Hlt Hf; [lia|].
  cbn [dec_go].
  assert (Hdm : n = 10 * (n / 10) + n mod 10) by (apply Z.div_mod; lia).
  assert (Hm : 0 <= n mod 10 < 10) by (apply Z.mod_pos_bound; lia).
  destruct (n / 10 =? 0) eqn:E.
  - apply Z.eqb_eq in E. rewrite undec_cons. replace (48 + n mod 10 - 48) with n by lia. reflexivity.
  - apply Z.eqb_neq in E.
    assert (Hq : 0 <= n / 10) by (apply Z.div_pos; lia).
    destruct f as [|f'].
    + cbn in Hlt. lia.
    + rewrite IH; try lia.
      * rewrite undec_cons. cbn [List.length]. rewrite Nat2Z.inj_succ, Z.pow_succ_r by lia.
        set (X := 10 ^ Z.of_nat (List.length acc)). set (q := n / 10) in *. set (m := n mod 10) in *.
        rewrite Hdm at 1. ring.
      * rewrite Nat2Z.inj_succ, Z.pow_succ_r in Hlt by lia.
        apply Z.div_lt_upper_bound; lia.
Qed.

Lemma undec_dec : forall n, 0 <= n -> undec (dec n) = n.
Proof.
  intros n Hn. unfold dec. rewrite dec_go_value; try lia.
  - cbn. lia.
  - destruct (Z.eq_dec n 0) as [->|Hz]; [cbn; lia|].
    rewrite Nat2Z.inj_succ, Z2Nat.id by apply Z.log2_nonneg.
    apply Z.log2_spec. lia.
Qed.

Lemma dec_injective : forall a b, 0 <= a -> 0 <= b -> dec a = dec b -> a = b.
Proof. intros a b Ha Hb E. rewrite <- (undec_dec a Ha), <- (undec_dec b Hb), E. reflexivity. Qed.
