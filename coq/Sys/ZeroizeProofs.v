(* C33 - proofs about the zeroization model (Sys/Zeroize.v). *)
From V.Base Require Import Common.
From V.Generated Require Import Constants.
From V.Sys Require Import Zeroize.
Local Open Scope Z_scope.

(* ------------------------------------------------------------------------------------------------ finite map laws *)
Definition bid_eqb (a b : bid) : bool :=
  match a, b with
  | BSrc, BSrc | BNulBytes, BNulBytes | BNulFelts, BNulFelts | BUaBytes, BUaBytes | BUaFelts, BUaFelts
  | BPre, BPre | BPad, BPad | BSalt, BSalt | BSqueeze, BSqueeze | BErr, BErr | BSf, BSf => true
  | _, _ => false
  end.
Lemma bid_eqb_spec a b : bid_eqb a b = true <-> a = b.
Proof. destruct a, b; cbn; split; intro H; try reflexivity; try discriminate. Qed.
Lemma bid_eqb_refl a : bid_eqb a a = true.
Proof. destruct a; reflexivity. Qed.

Lemma get_upd h b c b' : get (upd h b c) b' = if bid_eqb b b' then c else get h b'.
Proof. destruct h, b, b'; reflexivity. Qed.
Lemma get_upd_same h b c : get (upd h b c) b = c.
Proof. rewrite get_upd, bid_eqb_refl. reflexivity. Qed.
Lemma get_empty b : get h_empty b = dead_cell.
Proof. destruct b; reflexivity. Qed.

(* ------------------------------------------------------------------------------------------------ trace_safe as a Prop *)
(* statuses only: the sizes / "ever" flags of the executable checker are irrelevant for safety *)
Definition sset (s : bid -> bstatus) (b : bid) (v : bstatus) : bid -> bstatus :=
  fun b' => if bid_eqb b b' then v else s b'.

Inductive safe_from : (bid -> bstatus) -> list ev -> Prop :=
| sf_nil s : safe_from s []
| sf_alloc s b n t : s b = Dead -> safe_from (sset s b Clean) t -> safe_from s (Alloc b n :: t)
| sf_write_secret s b t : s b <> Dead -> safe_from (sset s b Tainted) t -> safe_from s (WriteSecret b :: t)
| sf_write_public s b t : s b <> Dead -> safe_from s t -> safe_from s (WritePublic b :: t)
| sf_zero s b t : s b <> Dead -> safe_from (sset s b Clean) t -> safe_from s (Zero b :: t)
| sf_free s b t : s b = Clean -> safe_from (sset s b Dead) t -> safe_from s (Free b :: t)
| sf_realloc s b n t : s b = Clean -> safe_from s t -> safe_from s (Realloc b n :: t)
| sf_upstream_pad s b t : s b <> Dead -> safe_from (sset s b Dead) t -> safe_from s (FreeUpstreamPad b :: t).

Definition ok_of (r : hstate * bool * list (Z * Z)) : bool := snd (fst r).
Definition heap_of (r : hstate * bool * list (Z * Z)) : hstate := fst (fst r).

Lemma run_trace_cons h e t :
  run_trace h (e :: t) =
  (heap_of (run_trace (heap_of (step_ev h e)) t),
   ok_of (step_ev h e) && ok_of (run_trace (heap_of (step_ev h e)) t),
   snd (step_ev h e) ++ snd (run_trace (heap_of (step_ev h e)) t)).
Proof.
  cbn [run_trace]. destruct (step_ev h e) as [[h1 ok1] o1]. cbn [heap_of ok_of fst snd].
  destruct (run_trace h1 t) as [[h2 ok2] o2]. reflexivity.
Qed.

Lemma run_trace_app h a b :
  run_trace h (a ++ b) =
  (heap_of (run_trace (heap_of (run_trace h a)) b),
   ok_of (run_trace h a) && ok_of (run_trace (heap_of (run_trace h a)) b),
   snd (run_trace h a) ++ snd (run_trace (heap_of (run_trace h a)) b)).
Proof.
  revert h; induction a as [|e a IH]; intro h.
  - cbn [app run_trace heap_of ok_of fst snd andb]. destruct (run_trace h b) as [[h2 ok2] o2]. reflexivity.
  - rewrite <- app_comm_cons. rewrite !run_trace_cons. rewrite IH. cbn [heap_of ok_of fst snd].
    rewrite andb_assoc, app_assoc. reflexivity.
Qed.

(* the relation between the executable heap and the status function after an event *)
Ltac solve_rel R :=
  first [ exact R
        | let b' := fresh "b'" in let Eb := fresh "Eb" in
          intro b'; rewrite get_upd; unfold sset;
          match goal with |- context [bid_eqb ?b b'] => destruct (bid_eqb b b') eqn:Eb end;
          [ try reflexivity; apply bid_eqb_spec in Eb; subst; cbn; congruence | apply R ] ].

Lemma safe_from_spec_gen : forall t h s,
  (forall b, c_st (get h b) = s b) -> (ok_of (run_trace h t) = true <-> safe_from s t).
Proof.
  induction t as [|e t IH]; intros h s R.
  - cbn. split; [intros _; constructor|reflexivity].
  - rewrite run_trace_cons. cbn [ok_of fst snd].
    destruct e as [b n|b|b|b|b|b n|b]; cbn [step_ev]; pose proof (R b) as Rb;
      destruct (c_st (get h b)) eqn:E; cbn [heap_of ok_of fst snd andb]; split; intro H; try discriminate H.
    all: try (econstructor; [congruence|];
              match goal with
              | |- safe_from ?s' ?t' =>
                  match type of H with
                  | ok_of (run_trace ?h' t') = true => apply (proj1 (IH h' s' ltac:(solve_rel R))); exact H
                  end
              end).
    all: inversion H; subst; try congruence.
    all: match goal with
         | Hs : safe_from ?s' ?t' |- ok_of (run_trace ?h' ?t') = true =>
             apply (proj2 (IH h' s' ltac:(solve_rel R))); exact Hs
         end.
Qed.

Lemma trace_safe_spec t : trace_safe t = true <-> safe_from (fun _ => Dead) t.
Proof.
  unfold trace_safe. apply (safe_from_spec_gen t h_empty). intro b. rewrite get_empty. reflexivity.
Qed.

(* what the Prop says in words, on the per-event level (used as the readable characterisation) *)
Lemma safe_from_free_inv s b t : safe_from s (Free b :: t) -> s b = Clean.
Proof. intro H; inversion H; assumption. Qed.
Lemma safe_from_realloc_inv s b n t : safe_from s (Realloc b n :: t) -> s b = Clean.
Proof. intro H; inversion H; assumption. Qed.
Lemma safe_from_tainted_free s b t : s b = Tainted -> ~ safe_from s (Free b :: t).
Proof. intros T H. apply safe_from_free_inv in H. congruence. Qed.
Lemma safe_from_tainted_realloc s b n t : s b = Tainted -> ~ safe_from s (Realloc b n :: t).
Proof. intros T H. apply safe_from_realloc_inv in H. congruence. Qed.

(* ------------------------------------------------------------------------------------------------ Vec growth *)
Definition sum_pushes (pushes : list (Z * bool)) : Z := fold_right (fun q a => Z.max 0 (fst q) + a) 0 pushes.

Definition is_write (b : bid) (e : ev) : Prop := e = WriteSecret b \/ e = WritePublic b.
Definition is_realloc (b : bid) (e : ev) : Prop := exists n, e = Realloc b n.

Lemma vec_extend_blk v n s : v_blk (fst (vec_extend v n s)) = v_blk v.
Proof. unfold vec_extend. destruct (n <=? 0); [reflexivity|]. destruct (v_len v + n <=? v_cap v); reflexivity. Qed.

(* enough reserved capacity: the pushes only write, the block never moves *)
Lemma vec_extends_no_realloc_gen : forall pushes v,
  0 <= v_len v -> v_len v + sum_pushes pushes <= v_cap v ->
  Forall (is_write (v_blk v)) (snd (vec_extend_all v pushes)) /\ v_cap (fst (vec_extend_all v pushes)) = v_cap v.
Proof.
  induction pushes as [|[n s] r IH]; intros v L H.
  - cbn. split; [constructor|reflexivity].
  - cbn [vec_extend_all]. cbn [sum_pushes fold_right fst] in H. fold (sum_pushes r) in H.
    assert (S0 : 0 <= sum_pushes r).
    { clear. induction r as [|q r IHr]; cbn; [lia|]. fold (sum_pushes r). lia. }
    unfold vec_extend. destruct (Z.leb_spec n 0) as [N|N].
    + specialize (IH v L ltac:(lia)). destruct (vec_extend_all v r) as [v2 e2]. cbn [fst snd app] in *. exact IH.
    + destruct (Z.leb_spec (v_len v + n) (v_cap v)) as [F|F]; [|lia].
      set (v1 := mkVec (v_blk v) (v_elem v) (v_cap v) (v_len v + n)).
      specialize (IH v1 ltac:(cbn; lia) ltac:(cbn; lia)). destruct (vec_extend_all v1 r) as [v2 e2].
      cbn [fst snd app] in *. destruct IH as [IH1 IH2]. split; [|exact IH2].
      constructor; [|exact IH1]. unfold is_write, write_ev. destruct s; [left|right]; reflexivity.
Qed.

(* too little capacity: some push reallocates *)
Lemma vec_extends_realloc_gen : forall pushes v,
  0 < v_cap v -> 0 <= v_len v <= v_cap v -> v_len v + sum_pushes pushes > v_cap v ->
  Exists (is_realloc (v_blk v)) (snd (vec_extend_all v pushes)).
Proof.
  induction pushes as [|[n s] r IH]; intros v C L H.
  - cbn in H. lia.
  - cbn [vec_extend_all]. cbn [sum_pushes fold_right fst] in H. fold (sum_pushes r) in H.
    unfold vec_extend. destruct (Z.leb_spec n 0) as [N|N].
    + specialize (IH v C L ltac:(lia)). destruct (vec_extend_all v r) as [v2 e2]. cbn [fst snd app] in *. exact IH.
    + destruct (Z.leb_spec (v_len v + n) (v_cap v)) as [F|F].
      * set (v1 := mkVec (v_blk v) (v_elem v) (v_cap v) (v_len v + n)).
        specialize (IH v1 ltac:(cbn; lia) ltac:(cbn; lia) ltac:(cbn; lia)). destruct (vec_extend_all v1 r) as [v2 e2].
        cbn [fst snd app] in *. apply Exists_cons_tl. exact IH.
      * match goal with |- context [vec_extend_all ?v1 r] => destruct (vec_extend_all v1 r) as [v2 e2] end.
        cbn [fst snd app]. apply Exists_cons_hd. destruct (Z.eqb_spec (v_cap v) 0) as [Z0|Z0]; [lia|].
        eexists. reflexivity.
Qed.

(* ... and when the block already holds the secret, that realloc makes the trace unsafe, whatever follows *)
Lemma growth_leaks_gen : forall pushes v h rest,
  c_st (get h (v_blk v)) = Tainted -> 0 < v_cap v -> 0 <= v_len v <= v_cap v -> v_len v + sum_pushes pushes > v_cap v ->
  ok_of (run_trace h (snd (vec_extend_all v pushes) ++ rest)) = false.
Proof.
  induction pushes as [|[n s] r IH]; intros v h rest T C L H.
  - cbn in H. lia.
  - cbn [vec_extend_all]. cbn [sum_pushes fold_right fst] in H. fold (sum_pushes r) in H.
    unfold vec_extend. destruct (Z.leb_spec n 0) as [N|N].
    + specialize (IH v h rest T C L ltac:(lia)). destruct (vec_extend_all v r) as [v2 e2]. cbn [fst snd app] in *. exact IH.
    + destruct (Z.leb_spec (v_len v + n) (v_cap v)) as [F|F].
      * set (v1 := mkVec (v_blk v) (v_elem v) (v_cap v) (v_len v + n)).
        assert (IH' := fun h' T' => IH v1 h' rest T' ltac:(cbn; lia) ltac:(cbn; lia) ltac:(cbn; lia)).
        destruct (vec_extend_all v1 r) as [v2 e2]. cbn [fst snd app] in *.
        rewrite run_trace_cons. cbn [ok_of fst snd].
        destruct s; cbn [write_ev step_ev]; rewrite T; cbn [heap_of ok_of fst snd andb].
        -- apply IH'. subst v1; cbn [v_blk]. rewrite get_upd_same. reflexivity.
        -- apply IH'. subst v1; cbn [v_blk]. exact T.
      * match goal with |- context [vec_extend_all ?v1 r] => destruct (vec_extend_all v1 r) as [v2 e2] end.
        cbn [fst snd app]. destruct (Z.eqb_spec (v_cap v) 0) as [Z0|Z0]; [lia|].
        rewrite run_trace_cons. cbn [ok_of fst snd step_ev]. rewrite T. reflexivity.
Qed.

Lemma growth_would_leak b elem cap n1 n2 s2 rest :
  0 < n1 <= cap -> n1 + n2 > cap ->
  trace_safe (snd (vec_with_capacity b elem cap)
              ++ snd (vec_extend_all (fst (vec_with_capacity b elem cap)) [(n1, true); (n2, s2)]) ++ rest) = false.
Proof.
  intros H1 H2. unfold trace_safe, vec_with_capacity. cbn [fst snd].
  destruct (Z.ltb_spec 0 cap) as [C|C]; [|lia].
  cbn [vec_extend_all]. unfold vec_extend at 1. cbn [v_len v_cap v_blk v_elem].
  destruct (Z.leb_spec n1 0); [lia|]. destruct (Z.leb_spec (0 + n1) cap); [|lia].
  match goal with |- context [vec_extend ?v1 n2 s2] => set (v := v1) end.
  pose proof (growth_leaks_gen [(n2, s2)] v) as G. cbn [vec_extend_all] in G.
  destruct (vec_extend v n2 s2) as [v2 e2] eqn:E. cbn [fst snd app] in *.
  change (snd (fst (run_trace h_empty (Alloc b (elem * cap) :: WriteSecret b :: (e2 ++ []) ++ rest))) = false).
  rewrite !run_trace_cons. cbn [ok_of fst snd step_ev heap_of]. rewrite get_empty. cbn [c_st dead_cell heap_of fst snd ok_of andb].
  rewrite get_upd_same. cbn [c_st heap_of fst snd ok_of andb c_size].
  apply G.
  - subst v; cbn [v_blk]. rewrite get_upd_same. reflexivity.
  - subst v; cbn; lia.
  - subst v; cbn; lia.
  - subst v; cbn [v_len v_cap sum_pushes fold_right fst]. lia.
Qed.

(* ------------------------------------------------------------------------------------------------ the call-sequence invariant *)
Definition vec_bytes (v : vec) : Z := v_elem v * v_cap v.
Definition live_cell (b : bool) (size : Z) : cell := if b then mkCell Tainted size true else dead_cell.

(* the heap between two calls, as a function of what the caller holds: exactly the held serialisation buffers
   are live (and hold the secret); every temporary is gone *)
Definition hstate_of (m : mstate) : hstate :=
  mkH dead_cell
      (live_cell (m_nb m) (vec_bytes (fst nullifier_to_bytes)))
      (live_cell (m_nf m) (vec_bytes (fst nullifier_to_felts)))
      (live_cell (m_ub m) (vec_bytes (fst unspendable_to_bytes)))
      (live_cell (m_uf m) (vec_bytes (fst unspendable_to_felts)))
      dead_cell dead_cell dead_cell dead_cell dead_cell
      (live_cell (m_sf m) (vec_bytes (fst caller_spare_felts))).

Definition hashes_secret (o : op) : bool := match o with NulFromPreimage | UaFromSecret => true | _ => false end.
Definition is_pad (sk : Z * Z) : bool := snd sk =? K_UPSTREAM_PAD.
Definition count_pad (o : list (Z * Z)) : nat := length (filter is_pad o).
Definition pad_sizes : list Z :=
  [FELT_BYTES * pad_len (zlen NULLIFIER_SALT_FELTS + POSEIDON2_OUTPUT + FELTS_PER_U64);
   FELT_BYTES * pad_len (zlen UNSPENDABLE_SALT_FELTS + POSEIDON2_OUTPUT)].
Definition obs_entry_ok (sk : Z * Z) : bool :=
  (snd sk =? K_SCRUBBED) || ((snd sk =? K_UPSTREAM_PAD) && existsb (Z.eqb (fst sk)) pad_sizes).

Definition st_eqb (a b : bstatus) : bool :=
  match a, b with Dead, Dead | Clean, Clean | Tainted, Tainted => true | _, _ => false end.
Definition cell_eqb (x y : cell) : bool :=
  st_eqb (c_st x) (c_st y) && (c_size x =? c_size y) && Bool.eqb (c_ever x) (c_ever y).
Definition hstate_eqb (h k : hstate) : bool :=
  cell_eqb (h_src h) (h_src k) && cell_eqb (h_nb h) (h_nb k) && cell_eqb (h_nf h) (h_nf k) &&
  cell_eqb (h_ub h) (h_ub k) && cell_eqb (h_uf h) (h_uf k) && cell_eqb (h_pre h) (h_pre k) &&
  cell_eqb (h_pad h) (h_pad k) && cell_eqb (h_salt h) (h_salt k) && cell_eqb (h_sq h) (h_sq k) &&
  cell_eqb (h_err h) (h_err k) && cell_eqb (h_sf h) (h_sf k).

Lemma cell_eqb_eq x y : cell_eqb x y = true -> x = y.
Proof.
  destruct x as [s1 z1 e1], y as [s2 z2 e2]. unfold cell_eqb. cbn [c_st c_size c_ever]. intro H.
  apply andb_true_iff in H. destruct H as [H H3]. apply andb_true_iff in H. destruct H as [H1 H2].
  apply Z.eqb_eq in H2. apply Bool.eqb_prop in H3. subst.
  destruct s1, s2; try discriminate; reflexivity.
Qed.
Lemma hstate_eqb_eq h k : hstate_eqb h k = true -> h = k.
Proof.
  destruct h as [a1 a2 a3 a4 a5 a6 a7 a8 a9 a10 a11], k as [b1 b2 b3 b4 b5 b6 b7 b8 b9 b10 b11]. unfold hstate_eqb.
  cbn [h_src h_nb h_nf h_ub h_uf h_pre h_pad h_salt h_sq h_err h_sf]. intro H.
  do 10 (apply andb_true_iff in H; let H' := fresh "H" in destruct H as [H H']).
  repeat match goal with X : cell_eqb _ _ = true |- _ => apply cell_eqb_eq in X end.
  subst. reflexivity.
Qed.

Definition step_check (m : mstate) (o : op) : bool :=
  let r := run_trace (hstate_of m) (snd (op_step m o)) in
  ok_of r && forallb obs_entry_ok (snd r) && (count_pad (snd r) =? (if hashes_secret o then 1 else 0))%nat &&
  hstate_eqb (heap_of r) (hstate_of (fst (op_step m o))).

(* 37 calls x 256 caller states, by computation *)
Lemma step_check_all : forall m o, step_check m o = true.
Proof.
  intros [[] [] [] [] [] [] [] []] o; destruct o; vm_compute; reflexivity.
Qed.

Lemma step_inv m o :
  heap_of (run_trace (hstate_of m) (snd (op_step m o))) = hstate_of (fst (op_step m o)) /\
  ok_of (run_trace (hstate_of m) (snd (op_step m o))) = true /\
  forallb obs_entry_ok (snd (run_trace (hstate_of m) (snd (op_step m o)))) = true /\
  count_pad (snd (run_trace (hstate_of m) (snd (op_step m o)))) = (if hashes_secret o then 1 else 0)%nat.
Proof.
  pose proof (step_check_all m o) as H. unfold step_check in H. cbv zeta in H.
  apply andb_true_iff in H. destruct H as [H H4]. apply andb_true_iff in H. destruct H as [H H3].
  apply andb_true_iff in H. destruct H as [H1 H2].
  apply hstate_eqb_eq in H4. apply Nat.eqb_eq in H3. repeat split; assumption.
Qed.

Lemma final_inv m :
  heap_of (run_trace (hstate_of m) (final_events m)) = h_empty /\
  ok_of (run_trace (hstate_of m) (final_events m)) = true /\
  forallb obs_entry_ok (snd (run_trace (hstate_of m) (final_events m))) = true /\
  count_pad (snd (run_trace (hstate_of m) (final_events m))) = 0%nat.
Proof. destruct m as [[] [] [] [] [] [] [] []]; vm_compute; repeat split; reflexivity. Qed.

Fixpoint count_hash_ops (ops : list op) : nat :=
  match ops with [] => 0%nat | o :: r => ((if hashes_secret o then 1 else 0) + count_hash_ops r)%nat end.

Lemma count_pad_app a b : count_pad (a ++ b) = (count_pad a + count_pad b)%nat.
Proof. unfold count_pad. rewrite filter_app, app_length. reflexivity. Qed.

Lemma seq_inv : forall ops m,
  heap_of (run_trace (hstate_of m) (seq_events m ops)) = h_empty /\
  ok_of (run_trace (hstate_of m) (seq_events m ops)) = true /\
  forallb obs_entry_ok (snd (run_trace (hstate_of m) (seq_events m ops))) = true /\
  count_pad (snd (run_trace (hstate_of m) (seq_events m ops))) = count_hash_ops ops.
Proof.
  induction ops as [|o r IH]; intro m.
  - cbn [seq_events count_hash_ops]. apply final_inv.
  - cbn [seq_events count_hash_ops]. pose proof (step_inv m o) as S.
    destruct (op_step m o) as [m1 e]. cbn [fst snd] in S. destruct S as (S1 & S2 & S3 & S4).
    specialize (IH m1). destruct IH as (I1 & I2 & I3 & I4).
    rewrite run_trace_app. cbn [heap_of ok_of fst snd]. rewrite S1.
    repeat split.
    + exact I1.
    + change (ok_of (run_trace (hstate_of m) e) && ok_of (run_trace (hstate_of m1) (seq_events m1 r)) = true).
      rewrite S2, I2. reflexivity.
    + rewrite forallb_app, S3, I3. reflexivity.
    + rewrite count_pad_app, S4, I4. reflexivity.
Qed.

Lemma hstate_of_init : hstate_of m_init = h_empty.
Proof. reflexivity. Qed.

(* ------------------------------------------------------------------------------------------------ main statements *)
Lemma no_secret_free : forall codes : list Z,
  trace_safe (run_seq codes) = true /\ safe_from (fun _ => Dead) (run_seq codes).
Proof.
  intro codes. assert (T : trace_safe (run_seq codes) = true).
  { unfold trace_safe, run_seq. rewrite <- hstate_of_init. apply (seq_inv (map op_of_Z codes) m_init). }
  split; [exact T|apply trace_safe_spec; exact T].
Qed.

Lemma all_freed_at_end : forall codes : list Z, fst (fst (run_trace h_empty (run_seq codes))) = h_empty.
Proof. intro codes. unfold run_seq. rewrite <- hstate_of_init. apply (seq_inv (map op_of_Z codes) m_init). Qed.

Lemma obs_entry_ok_spec sk :
  obs_entry_ok sk = true <-> snd sk = K_SCRUBBED \/ (snd sk = K_UPSTREAM_PAD /\ In (fst sk) pad_sizes).
Proof.
  unfold obs_entry_ok. rewrite orb_true_iff, andb_true_iff, !Z.eqb_eq, existsb_exists.
  split; (intros [H|[H1 H2]]; [left; exact H|right; split; [exact H1|]]).
  - destruct H2 as [x [Hin Hx]]. apply Z.eqb_eq in Hx. subst. exact Hin.
  - exists (fst sk). split; [exact H2|apply Z.eqb_refl].
Qed.

(* the only unscrubbed release ever observed is the upstream pad buffer, exactly once per secret-hashing call *)
Lemma exemption_exact : forall codes : list Z,
  Forall (fun sk => snd sk = K_SCRUBBED \/ (snd sk = K_UPSTREAM_PAD /\ In (fst sk) pad_sizes)) (observe (run_seq codes)) /\
  count_pad (observe (run_seq codes)) = count_hash_ops (map op_of_Z codes).
Proof.
  intro codes. unfold observe, run_seq. rewrite <- hstate_of_init.
  destruct (seq_inv (map op_of_Z codes) m_init) as (_ & _ & I3 & I4). split; [|exact I4].
  apply Forall_forall. intros sk Hin. apply obs_entry_ok_spec. rewrite forallb_forall in I3. apply I3. exact Hin.
Qed.

(* the reserved capacity of the preimage buffer is what makes from_preimage safe *)
Lemma preimage_capacity_enough cap :
  zlen NULLIFIER_SALT_FELTS + POSEIDON2_OUTPUT + FELTS_PER_U64 <= cap -> trace_safe (nullifier_from_preimage_cap cap) = true.
Proof.
  intro H. change (zlen NULLIFIER_SALT_FELTS + POSEIDON2_OUTPUT + FELTS_PER_U64) with 9 in H.
  unfold trace_safe, nullifier_from_preimage_cap.
  change (zlen NULLIFIER_SALT_FELTS) with 3. change POSEIDON2_OUTPUT with 4. change FELTS_PER_U64 with 2.
  change FELT_BYTES with 8.
  unfold vec_with_capacity at 2. cbn [fst snd].
  destruct (Z.ltb_spec 0 cap) as [C|C]; [|lia].
  unfold vec_with_capacity. change (0 <? 3) with true. cbv iota beta.
  unfold vec_extend. cbn [v_len v_cap v_blk v_elem].
  change (3 <=? 0) with false. change (4 <=? 0) with false. change (2 <=? 0) with false. cbv iota beta.
  destruct (Z.leb_spec (0 + 3) cap) as [C1|C1]; [|lia]. cbn [v_len v_cap v_blk v_elem].
  destruct (Z.leb_spec (0 + 3 + 4) cap) as [C2|C2]; [|lia]. cbn [v_len v_cap v_blk v_elem].
  destruct (Z.leb_spec (0 + 3 + 4 + 2) cap) as [C3|C3]; [|lia]. cbn [v_len v_cap v_blk v_elem].
  unfold drop_plain, drop_sensitive_felts. cbn [v_len v_cap v_blk v_elem].
  change (0 <? 3) with true. destruct (Z.ltb_spec 0 cap) as [C4|C4]; [|lia].
  cbv iota beta. reflexivity.
Qed.

(* ------------------------------------------------------------------------------------------------ Secret::new *)
Lemma map_zero_repeat (l : list Z) : map (fun _ => 0) l = repeat 0 (length l).
Proof. induction l as [|x l IH]; cbn; [reflexivity|rewrite IH; reflexivity]. Qed.

Definition sub8 (l : list Z) (i : nat) : list Z := firstn 8 (skipn i l).

Lemma chunks8_32 (l : list Z) : length l = 32%nat -> chunks 8 l = [sub8 l 0; sub8 l 8; sub8 l 16; sub8 l 24].
Proof.
  intro L. do 32 (destruct l as [|? l]; [discriminate L|]). destruct l; [|discriminate L]. reflexivity.
Qed.

Lemma new_zeroes_source (bytes : list Z) :
  length bytes = 32%nat ->
  snd (secret_new bytes) = repeat 0 32 /\
  (is_ok (fst (secret_new bytes)) = true <->
   le_limb (sub8 bytes 0) < p /\ le_limb (sub8 bytes 8) < p /\ le_limb (sub8 bytes 16) < p /\ le_limb (sub8 bytes 24) < p) /\
  (forall s, fst (secret_new bytes) = Ok s -> s = bytes).
Proof.
  intro L. unfold secret_new. cbn [fst snd]. split; [rewrite map_zero_repeat, L; reflexivity|].
  unfold bytes_digest_try_from. rewrite (chunks8_32 bytes L). cbn [forallb].
  change INPUTS_GOLDILOCKS_ORDER with p. rewrite andb_true_r.
  split.
  - destruct (Z.ltb_spec (le_limb (sub8 bytes 0)) p) as [A0|A0], (Z.ltb_spec (le_limb (sub8 bytes 8)) p) as [A1|A1],
      (Z.ltb_spec (le_limb (sub8 bytes 16)) p) as [A2|A2], (Z.ltb_spec (le_limb (sub8 bytes 24)) p) as [A3|A3];
      cbn [andb is_ok]; split; intro HH; try discriminate HH; try reflexivity; try (repeat split; assumption);
      destruct HH as (B0 & B1 & B2 & B3); lia.
  - intros s. destruct (_ && _); intro H; inversion H; reflexivity.
Qed.

Lemma le_limb_range (bs : list Z) : Forall (fun b => 0 <= b < 256) bs -> 0 <= le_limb bs < 256 ^ Z.of_nat (length bs).
Proof.
  induction 1 as [|b bs Hb _ IH]; [cbn; lia|].
  cbn [le_limb fold_right length]. fold (le_limb bs). rewrite Nat2Z.inj_succ, Z.pow_succ_r by lia. nia.
Qed.
