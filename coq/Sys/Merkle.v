(* C27 - native 4-ary Merkle proofs (common/src/zk_merkle.rs) and their circuit-side form
   (wormhole/circuit/src/zk_merkle_proof.rs).  Executable model only; proofs in MerkleProofs.v.

   Data: a 32-byte hash ([Hash256 = [u8; 32]]) is modelled by its four little-endian u64 limbs
   ([u64::from_le_bytes] of bytes 8i..8i+8) - the form in which the code itself reads it in
   [is_canonical_hash] and in the compact 8-bytes-per-felt encoding of [hash_bytes_compact].
   Everything that depends on the BYTES of a hash (the [Ord] of [u8; 32] used by [sort]) goes through
   [bytes_of_digest], the explicit little-endian byte expansion, so the order is the byte-lexicographic
   one and NOT the numeric order of the limbs.
   The Poseidon2 sponge is the parameter [H] (16 felts -> 4 felts, canonical representatives); it stands for
   [qp_poseidon_core::hash_to_bytes] read back as limbs, which is the same function as the in-circuit
   [hash_n_to_hash_no_pad_p2] (checked on every correspondence case: the driver answers H with the plonky2
   [Poseidon2Hash::hash_no_pad], the implementation hashes with qp_poseidon_core).
   [leaf_index] of [ZkMerkleProof] is informational (never read by any function) and is not modelled. *)
From Coq Require Import ZArith List Bool.
From V.Base Require Import Common.
From V.Generated Require Import Constants.
From V.Circ Require Import Field Core Prims Gadgets Leaf.
Import ListNotations.
Open Scope Z_scope.
(* mathcomp.zify (loaded through Base/Flt.v) resets the hook; set it again after all imports *)
Ltac Zify.zify_post_hook ::= Z.div_mod_to_equations.

Definition PANIC : Z := -1.
Definition ILL_TYPED : Z := 9.      (* the argument is outside the Rust type (e.g. not three siblings) *)

Notation digest := (list Z) (only parsing).

(* ---------------------------------------------------------------- bytes, order, equality *)

(* uN::to_le_bytes, n bytes *)
Fixpoint to_le (n : nat) (x : Z) : list Z :=
  match n with
  | O => []
  | S k => x mod 256 :: to_le k (x / 256)
  end.
Definition bytes_of_limb (v : Z) : list Z := to_le 8 v.
Definition bytes_of_digest (h : digest) : list Z := flat_map bytes_of_limb h.

(* Ord on [u8; 32] (and on slices): lexicographic on bytes *)
Fixpoint lex_leb (a b : list Z) : bool :=
  match a, b with
  | [], _ => true
  | _ :: _, [] => false
  | x :: a', y :: b' => if x <? y then true else if y <? x then false else lex_leb a' b'
  end.
Definition hash_leb (a b : digest) : bool := lex_leb (bytes_of_digest a) (bytes_of_digest b).
(* strictly below *)
Definition hash_ltb (a b : digest) : bool := negb (hash_leb b a).
(* == on [u8; 32] *)
Definition hash_eqb (a b : digest) : bool := list_eqb a b.

(* [T; 4]::sort(): the sorted arrangement (the order is total and antisymmetric on hashes, so it is unique;
   computed here by insertion) *)
Fixpoint insert_sorted (x : digest) (l : list digest) : list digest :=
  match l with
  | [] => [x]
  | y :: r => if hash_leb x y then x :: y :: r else y :: insert_sorted x r
  end.
Definition sort_hashes (l : list digest) : list digest := fold_right insert_sorted [] l.

(* zk_merkle.rs:53 is_canonical_hash: every limb < GOLDILOCKS_MODULUS *)
Definition is_canonical_hash (h : digest) : bool := forallb (fun v => v <? MERKLE_GOLDILOCKS_MODULUS) h.

(* ---------------------------------------------------------------- node hashing *)

(* zk_merkle.rs:342 hash_node_presorted -> serialization::hash_bytes_compact on the 128 concatenated bytes:
   length 128 <= MAX_SERIALIZED_BYTES and a multiple of 8 (cannot fail), every limb must be canonical
   (qp_poseidon_core try_canonical_limb), then the sponge over the 16 limbs *)
Definition hash_node_presorted (H : list Z -> list Z) (children : list digest) : res digest :=
  if forallb is_canonical_hash children then Ok (H (concat children)) else Err 3.
(* zk_merkle.rs:367 hash_node: sort, then the same *)
Definition hash_node (H : list Z -> list Z) (children : list digest) : res digest :=
  hash_node_presorted H (sort_hashes children).

(* zk_merkle.rs:296 insert_at_position *)
Definition insert_at_position (cur : digest) (sibs : list digest) (pos : Z) : res (list digest) :=
  match sibs with
  | [s0; s1; s2] =>
      if pos =? 0 then Ok [cur; s0; s1; s2]
      else if pos =? 1 then Ok [s0; cur; s1; s2]
      else if pos =? 2 then Ok [s0; s1; cur; s2]
      else if pos =? 3 then Ok [s0; s1; s2; cur]
      else Err 1
  | _ => Err ILL_TYPED
  end.

(* ---------------------------------------------------------------- ZkMerkleProof *)

Record proof := mkProof {
  pf_siblings : list (list digest);     (* Vec<[Hash256; 3]> *)
  pf_positions : list Z;                (* Vec<u8> *)
  pf_leaf : digest;
  pf_root : digest
}.

(* the loop of verify_with_positions (zk_merkle.rs:187): None = `return false` from inside the loop *)
Fixpoint walk (H : list Z -> list Z) (cur : digest) (levels : list (list digest * Z)) : option digest :=
  match levels with
  | [] => Some cur
  | (sibs, pos) :: r =>
      match insert_at_position cur sibs pos with
      | Err _ => None
      | Ok children =>
          match hash_node_presorted H children with
          | Err _ => None
          | Ok parent => walk H parent r
          end
      end
  end.

(* zk_merkle.rs:164 *)
Definition verify_with_positions (H : list Z -> list Z) (pr : proof) : bool :=
  if MERKLE_MAX_DEPTH <? zlen (pf_siblings pr) then false
  else if negb (zlen (pf_siblings pr) =? zlen (pf_positions pr)) then false
  else if negb (is_canonical_hash (pf_leaf pr)) then false
  else if negb (forallb (forallb is_canonical_hash) (pf_siblings pr)) then false
  else match walk H (pf_leaf pr) (combine (pf_siblings pr) (pf_positions pr)) with
       | Some cur => hash_eqb cur (pf_root pr)
       | None => false
       end.
(* zk_merkle.rs:152 *)
Definition verify (H : list Z -> list Z) (pr : proof) : bool := verify_with_positions H pr.

(* iter().position(pred) *)
Fixpoint find_index (f : digest -> bool) (l : list digest) : option nat :=
  match l with
  | [] => None
  | x :: r => if f x then Some O else match find_index f r with Some n => Some (S n) | None => None end
  end.
(* the elements at indices <> n, in order *)
Fixpoint remove_nth (n : nat) (l : list digest) : list digest :=
  match l with
  | [] => []
  | x :: r => match n with O => r | S m => x :: remove_nth m r end
  end.

(* the loop of from_unsorted (zk_merkle.rs:241): (sorted siblings, positions, hash reached) *)
Fixpoint fu_loop (H : list Z -> list Z) (cur : digest) (levels : list (list digest))
  : res (list (list digest) * list Z * digest) :=
  match levels with
  | [] => Ok ([], [], cur)
  | lv :: r =>
      let all_four := sort_hashes (cur :: lv) in
      match find_index (hash_eqb cur) all_four with
      | None => Err PANIC                                     (* .position(..).unwrap() *)
      | Some pos =>
          match hash_node_presorted H all_four with
          | Err c => Err c
          | Ok parent =>
              match fu_loop H parent r with
              | Err c => Err c
              | Ok (ss, ps, top) => Ok (remove_nth pos all_four :: ss, Z.of_nat pos :: ps, top)
              end
          end
      end
  end.

(* zk_merkle.rs:218 *)
Definition from_unsorted (H : list Z -> list Z) (unsorted : list (list digest)) (leaf root : digest) : res proof :=
  _ <-? guard (zlen unsorted <=? MERKLE_MAX_DEPTH) 1 ;;
  _ <-? guard (is_canonical_hash leaf) 2 ;;
  _ <-? guard (forallb (forallb is_canonical_hash) unsorted) 3 ;;
  match fu_loop H leaf unsorted with
  | Err c => Err c
  | Ok (ss, ps, _) => Ok (mkProof ss ps leaf root)
  end.

(* the root of the tree path through unsorted child sets: fold of the order-independent hash_node
   (how the chain / the tests build a root) *)
Fixpoint compute_root (H : list Z -> list Z) (cur : digest) (levels : list (list digest)) : res digest :=
  match levels with
  | [] => Ok cur
  | lv :: r => parent <-? hash_node H (cur :: lv) ;; compute_root H parent r
  end.

(* ---------------------------------------------------------------- the circuit side *)

(* the part of ZkMerkleProofData::circuit (zk_merkle_proof.rs:506-625; Leaf.v zk_merkle_circuit) that consumes
   the tree path: depth bound, 16-level walk, gated root binding.  MerkleProofs.zk_merkle_circuit_path shows
   that zk_merkle_circuit is literally [.. Hash leaf_preimage (fun leaf_hash => path_circuit ..)]. *)
Definition path_circuit (depth : Z) (leaf_hash : list Z) (sibs : list (list (list Z))) (positions : list Z)
           (root : list Z) (is_not_dummy : Z) : Circ unit :=
  _ <- enforce_target_less_than_const depth (MERKLE_MAX_DEPTH + 1) n_log_depth ;;
  root' <- merkle_walk 0 depth leaf_hash (combine sibs positions) ;;
  assert_gated root' root is_not_dummy (Ret tt).

(* ZkMerkleProofData::fill_targets (zk_merkle_proof.rs:628): the path targets of all MAX_DEPTH levels, unused
   levels padded with the zero hash and position 0; None = bail! *)
Definition zero_level : list (list Z) := [[0; 0; 0; 0]; [0; 0; 0; 0]; [0; 0; 0; 0]].
Definition fill_path (sibs : list (list (list Z))) (positions : list Z) : option (list (list (list Z)) * list Z) :=
  if MERKLE_MAX_DEPTH <? zlen sibs then None
  else if negb (zlen positions =? zlen sibs) then None
  else if negb (forallb (fun q => q <=? 3) positions) then None
  else let pad := (Z.to_nat MERKLE_MAX_DEPTH - length sibs)%nat in
       Some (sibs ++ repeat zero_level pad, positions ++ repeat 0 pad).

(* ZkMerkleProofData::new (depth = siblings.len()) + fill_targets + the path constraints, for a real
   (not dummy) statement whose leaf preimage is [leaf_pre] *)
Definition circuit_accepts_path (H : list Z -> list Z) (leaf_hash : list Z) (sibs : list (list (list Z)))
           (positions : list Z) (root : list Z) : bool :=
  match fill_path sibs positions with
  | None => false
  | Some (s, ps) =>
      match hon H (path_circuit (zlen sibs) leaf_hash s ps root 1) with
      | Some _ => true
      | None => false
      end
  end.

(* serialization::bytes_to_digest followed by the witness assignment: the field element of a u64 limb *)
Definition felt_of_limb (v : Z) : Z := v mod p.

(* ---------------------------------------------------------------- correspondence interface *)

Definition seg (args : list (list Z)) (i : nat) : list Z := nth i args [].
Definition digests_of (flat : list Z) : list digest := chunks 4 flat.
Definition levels_of (flat : list Z) : list (list digest) := chunks 3 (digests_of flat).

Definition b2z' (b : bool) : Z := if b then 1 else 0.
Definition enc_res {A} (enc : A -> list Z) (r : res A) : list Z :=
  match r with
  | Ok a => 1 :: enc a
  | Err c => if c =? PANIC then [PANIC] else [0]
  end.
Definition enc_proof (pr : proof) : list Z :=
  zlen (pf_siblings pr) :: pf_positions pr ++ concat (concat (pf_siblings pr)) ++ pf_leaf pr ++ pf_root pr.

(* segments:
   2701 verify / verify_with_positions   0: leaf  1: root  2: positions  3: siblings (12 limbs per level)
   2702 from_unsorted                    0: leaf  1: root  2: unsorted siblings
        out: the proof, its verify(), the hash_node-folded root, verify() against that root
   2703 insert_at_position               0: current  1: three siblings  2: [position]
   2704 hash_node_presorted, hash_node   0: four children
   2705 native verify vs circuit path    0: leaf hash  1: root felts  2: positions  3: sibling felts
        (ZkMerkleProofData::new of the same byte proof, canonical values of the stored field elements)
   2706 the same on a byte proof with a non-canonical alias limb: 0..3 raw limbs of the byte proof,
        4: root felts 5: sibling felts as stored by ZkMerkleProofData::new *)
Definition dispatch_h (H : list Z -> list Z) (fid : Z) (args : list (list Z)) : list Z :=
  if fid =? 2701 then
    let pr := mkProof (levels_of (seg args 3)) (seg args 2) (seg args 0) (seg args 1) in
    [b2z' (verify H pr); b2z' (verify_with_positions H pr)]
  else if fid =? 2702 then
    let lv := levels_of (seg args 2) in
    match from_unsorted H lv (seg args 0) (seg args 1) with
    | Err c => if c =? PANIC then [PANIC] else [0]
    | Ok pr =>
        1 :: enc_proof pr ++ [b2z' (verify H pr)] ++
        match compute_root H (seg args 0) lv with
        | Ok r2 => 1 :: r2 ++ [b2z' (verify H (mkProof (pf_siblings pr) (pf_positions pr) (pf_leaf pr) r2))]
        | Err _ => [0]
        end
    end
  else if fid =? 2703 then
    enc_res (fun l => concat l) (insert_at_position (seg args 0) (digests_of (seg args 1)) (nth 0 (seg args 2) 0))
  else if fid =? 2704 then
    enc_res (fun d => d) (hash_node_presorted H (digests_of (seg args 0))) ++
    enc_res (fun d => d) (hash_node H (digests_of (seg args 0)))
  else if fid =? 2705 then
    [b2z' (circuit_accepts_path H (seg args 0) (levels_of (seg args 3)) (seg args 2) (seg args 1))]
  else if fid =? 2706 then
    let pr := mkProof (levels_of (seg args 3)) (seg args 2) (seg args 0) (seg args 1) in
    [b2z' (verify H pr);
     b2z' (list_eqb (map felt_of_limb (seg args 1)) (seg args 4) && list_eqb (map felt_of_limb (seg args 3)) (seg args 5));
     b2z' (circuit_accepts_path H (seg args 0) (levels_of (seg args 5)) (seg args 2) (seg args 4))]
  else [-2].
