(* Executable model of the byte / digest / integer encodings (C25) and of compact node hashing (C26).
     common/src/serialization.rs   : bytes_to_felts, felts_to_bytes, bytes_to_digest, digest_to_bytes,
                                     u64_to_felts, try_felts_to_u64, u128_to_felts, try_felts_to_u128,
                                     try_u128_to_quantized_felt, try_felt_to_quantized_u128,
                                     hash_bytes_compact
     qp-poseidon-core 3.1.0 serialization.rs : bytes_to_u64s (BytesToU64sIter), u64s_to_bytes,
                                     bytes_to_u64s_compact, bytes_to_felts_compact (try_canonical_limb)
     common/src/utils.rs           : digest_to_bytes (the `expect`-ing wrapper)
     wormhole/inputs/src/lib.rs    : BytesDigest::try_from (&[u8] and [u8; 32])
     wormhole/circuit/src/sensitive.rs : Secret::new (validates with BytesDigest::try_from)
     common/src/zk_merkle.rs       : is_canonical_hash, hash_node, hash_node_presorted
   Bytes are Z in [0,256); u64 / GoldilocksField inner values are Z in [0,2^64).
   A GoldilocksField is modelled by its raw inner u64 (possibly >= p); [to_canonical] is
   to_canonical_u64.  The Poseidon2 sponge is NOT modelled: it is the explicit argument
   [H : list Z -> list Z] (felt list -> 4 output felts).  [Err (-1)] renders a Rust panic. *)
From V.Base Require Import Common.
From V.Generated Require Import Constants.

Definition PANIC : Z := -1.

Definition is_byte (b : Z) : bool := (0 <=? b) && (b <? 256).

(* GoldilocksField::to_canonical_u64 / Goldilocks::as_canonical_u64 of a raw inner u64 *)
Definition to_canonical (raw : Z) : Z := if FIELD_ORDER <=? raw then raw - FIELD_ORDER else raw.

(* ---------------------------------------------------------------- little-endian integers *)

(* uN::from_le_bytes *)
Fixpoint le (bs : list Z) : Z :=
  match bs with
  | [] => 0
  | b :: r => b + 256 * le r
  end.
(* uN::to_le_bytes, n bytes *)
Fixpoint to_le (n : nat) (x : Z) : list Z :=
  match n with
  | O => []
  | S k => x mod 256 :: to_le k (x / 256)
  end.

(* ---------------------------------------------------------------- edge encoding: 4 bytes / felt + terminator *)

(* qp_poseidon_core bytes_to_u64s: full 4-byte chunks, then one word holding the remainder,
   the marker byte 1 and zero padding *)
Fixpoint encode_raw (bs : list Z) : list Z :=
  match bs with
  | b0 :: b1 :: b2 :: b3 :: r => le [b0; b1; b2; b3] :: encode_raw r
  | [b0; b1; b2] => [le [b0; b1; b2; 1]]
  | [b0; b1] => [le [b0; b1; 1; 0]]
  | [b0] => [le [b0; 1; 0; 0]]
  | [] => [le [1; 0; 0; 0]]
  end.

(* serialization::bytes_to_felts; from_noncanonical_u64 keeps the (u32) value *)
Definition bytes_to_felts (bs : list Z) : res (list Z) :=
  _ <-? guard (zlen bs <=? MAX_SERIALIZED_BYTES) 1 ;;
  Ok (encode_raw bs).

(* the last word of u64s_to_bytes: [1,0,0,0] (aligned input), else the first j with
   last[j] == 1 and only zeros behind it *)
Definition strip_marker (b0 b1 b2 b3 : Z) : res (list Z) :=
  if (b0 =? 1) && (b1 =? 0) && (b2 =? 0) && (b3 =? 0) then Ok []
  else if (b1 =? 1) && (b2 =? 0) && (b3 =? 0) then Ok [b0]
  else if (b2 =? 1) && (b3 =? 0) then Ok [b0; b1]
  else if (b3 =? 1) then Ok [b0; b1; b2]
  else Err 4.
Definition decode_last (w : Z) : res (list Z) :=
  match to_le 4 w with                   (* (v as u32).to_le_bytes() *)
  | [b0; b1; b2; b3] => strip_marker b0 b1 b2 b3
  | _ => Err PANIC                        (* to_le 4 always has 4 bytes *)
  end.

(* words[..n-1] are emitted whole, the last one loses its marker *)
Fixpoint decode_words (ws : list Z) : res (list Z) :=
  match ws with
  | [] => Err PANIC                       (* words.last().unwrap(); excluded by the is_empty test *)
  | w :: r =>
    match r with
    | [] => decode_last w
    | _ :: _ => t <-? decode_words r ;; Ok (to_le 4 w ++ t)
    end
  end.

(* qp_poseidon_core u64s_to_bytes *)
Definition u64s_to_bytes (input : list Z) : res (list Z) :=
  _ <-? guard (negb (length input =? 0)%nat) 2 ;;
  _ <-? guard (forallb (fun v => v <=? SER_BIT_32_LIMB_MASK) input) 3 ;;
  decode_words input.

(* serialization::felts_to_bytes on raw field values *)
Definition felts_to_bytes (raw : list Z) : res (list Z) :=
  _ <-? guard (zlen raw <=? MAX_SERIALIZED_FELTS) 1 ;;
  u64s_to_bytes (map to_canonical raw).

(* ---------------------------------------------------------------- 8-byte limbs *)

(* bytes_to_u64s_compact: consecutive 8-byte little-endian limbs, the tail zero-padded
   (a short tail's [le] equals the [le] of its zero-padded form) *)
Fixpoint limbs8 (bs : list Z) : list Z :=
  match bs with
  | [] => []
  | b0 :: b1 :: b2 :: b3 :: b4 :: b5 :: b6 :: b7 :: r => le [b0; b1; b2; b3; b4; b5; b6; b7] :: limbs8 r
  | _ => [le bs]
  end.

(* ---------------------------------------------------------------- digests *)

(* BytesDigest::try_from(&[u8]) and ::try_from([u8; 32]); Secret::new validates with the same *)
Definition bytes_digest_try_from (bs : list Z) : res (list Z) :=
  _ <-? guard (zlen bs =? DIGEST_BYTES_LEN) 1 ;;
  _ <-? guard (forallb (fun v => v <? INPUTS_GOLDILOCKS_ORDER) (limbs8 bs)) 2 ;;
  Ok bs.

(* serialization::bytes_to_digest: raw inner values of the four felts (no reduction, no check) *)
Definition bytes_to_digest (bs : list Z) : list Z := limbs8 bs.
(* serialization::digest_to_bytes: canonical value of every felt, 8 LE bytes each *)
Definition digest_to_bytes (raw : list Z) : list Z := flat_map (fun f => to_le 8 (to_canonical f)) raw.
(* utils::digest_to_bytes: BytesDigest::try_from(..).expect(..) *)
Definition utils_digest_to_bytes (raw : list Z) : res (list Z) :=
  match bytes_digest_try_from (digest_to_bytes raw) with
  | Ok b => Ok b
  | Err _ => Err PANIC
  end.

(* ---------------------------------------------------------------- integer limb codecs *)

Definition as_32_bit_limb (v : Z) : res Z := _ <-? guard (v <=? SER_BIT_32_LIMB_MASK) 5 ;; Ok v.

(* [(num >> 32) & MASK, num & MASK] *)
Definition u64_to_felts (n : Z) : list Z := [(n / two32) mod two32; n mod two32].
(* out |= limb << (32 - 32 i): the limbs are below 2^32, so the bit ranges are disjoint and | is + *)
Definition try_felts_to_u64 (raw : list Z) : res Z :=
  match map to_canonical raw with
  | [f0; f1] =>
    l0 <-? as_32_bit_limb f0 ;;
    l1 <-? as_32_bit_limb f1 ;;
    Ok (l0 * two32 + l1)
  | _ => Err PANIC                        (* the Rust type is [F; 2] *)
  end.

(* (num >> (96 - 32 i)) & MASK, i = 0..3 *)
Definition u128_to_felts (n : Z) : list Z :=
  [(n / (two32 * two32 * two32)) mod two32; (n / (two32 * two32)) mod two32; (n / two32) mod two32; n mod two32].
Definition try_felts_to_u128 (raw : list Z) : res Z :=
  match map to_canonical raw with
  | [f0; f1; f2; f3] =>
    l0 <-? as_32_bit_limb f0 ;;
    l1 <-? as_32_bit_limb f1 ;;
    l2 <-? as_32_bit_limb f2 ;;
    l3 <-? as_32_bit_limb f3 ;;
    Ok (((l0 * two32 + l1) * two32 + l2) * two32 + l3)
  | _ => Err PANIC                        (* the Rust type is [F; 4] *)
  end.

(* try_u128_to_quantized_felt *)
Definition try_u128_to_quantized_felt (num : Z) : res Z :=
  let quantized := num / AMOUNT_QUANTIZATION_FACTOR in
  _ <-? guard (negb (SER_BIT_32_LIMB_MASK <? quantized)) 6 ;;
  Ok quantized.
(* try_felt_to_quantized_u128 (v < 2^32, so the u128 product cannot overflow) *)
Definition try_felt_to_quantized_u128 (raw : Z) : res Z :=
  v <-? as_32_bit_limb (to_canonical raw) ;;
  Ok (v * AMOUNT_QUANTIZATION_FACTOR).

(* ---------------------------------------------------------------- compact hashing (C26) *)

(* qp_poseidon_core bytes_to_felts_compact: try_canonical_limb on every limb *)
Definition canonical_limb (v : Z) : res Z := _ <-? guard (v <? POSEIDON_CORE_P) 3 ;; Ok v.
Definition bytes_to_felts_compact_strict (bs : list Z) : res (list Z) := mapM canonical_limb (limbs8 bs).

(* the felt list hash_bytes_compact hands to the sponge *)
Definition compact_preimage (bs : list Z) : res (list Z) :=
  _ <-? guard (zlen bs <=? MAX_SERIALIZED_BYTES) 1 ;;
  _ <-? guard (zlen bs mod 8 =? 0) 2 ;;
  bytes_to_felts_compact_strict bs.

(* qp_poseidon_core::hash_to_bytes: sponge output (4 felts) as 32 bytes *)
Definition hash_to_bytes (H : list Z -> list Z) (felts : list Z) : list Z := digest_to_bytes (H felts).

Definition hash_bytes_compact (H : list Z -> list Z) (bs : list Z) : res (list Z) :=
  felts <-? compact_preimage bs ;;
  Ok (hash_to_bytes H felts).

(* Ord on [u8; 32]: lexicographic on bytes *)
Fixpoint lex_leb (a b : list Z) : bool :=
  match a, b with
  | [], _ => true
  | _ :: _, [] => false
  | x :: a', y :: b' => if x <? y then true else if y <? x then false else lex_leb a' b'
  end.
(* [T]::sort — the sorted arrangement under a total order (computed here by insertion) *)
Fixpoint insert_sorted (x : list Z) (l : list (list Z)) : list (list Z) :=
  match l with
  | [] => [x]
  | y :: r => if lex_leb x y then x :: y :: r else y :: insert_sorted x r
  end.
Definition sort_children (l : list (list Z)) : list (list Z) := fold_right insert_sorted [] l.

Definition is_canonical_hash (h : list Z) : bool := forallb (fun v => v <? MERKLE_GOLDILOCKS_MODULUS) (limbs8 h).

Definition hash_node_presorted (H : list Z -> list Z) (children : list (list Z)) : res (list Z) :=
  hash_bytes_compact H (concat children).
Definition hash_node (H : list Z -> list Z) (children : list (list Z)) : res (list Z) :=
  hash_bytes_compact H (concat (sort_children children)).

(* ---------------------------------------------------------------- correspondence interface *)

Definition enc_res {A} (enc : A -> list Z) (r : res A) : list Z :=
  match r with
  | Ok a => 1 :: enc a
  | Err c => if c =? PANIC then [PANIC] else [0]
  end.
Definition id_list (l : list Z) : list Z := l.

Definition seg (args : list (list Z)) (i : nat) : list Z := nth i args [].
Definition arg (args : list (list Z)) (i j : nat) : Z := nth j (seg args i) 0.

(* "described" input: seg i = [len; fill], seg (i+1) = literal suffix  ->  fill^len ++ suffix *)
Definition described (args : list (list Z)) (i : nat) : list Z :=
  repeat (arg args i 1) (Z.to_nat (arg args i 0)) ++ seg args (S i).

(* u128 values travel as [hi64; lo64] *)
Definition u128_of (hi lo : Z) : Z := hi * two64 + lo.
Definition enc_u128 (v : Z) : list Z := [v / two64; v mod two64].

(* hash oracle from a finite table; [MISSING] flags a preimage the harness did not record *)
Definition MISSING : Z := -3.
Definition H_tbl (t : table) (k : list Z) : list Z :=
  match tbl_lookup t k with Some v => v | None => [] end.
Definition with_preimage (t : table) (pre : res (list Z)) (r : res (list Z)) : list Z :=
  match pre with
  | Ok f => match tbl_lookup t f with
            | Some _ => enc_res id_list r
            | None => [MISSING]
            end
  | Err _ => enc_res id_list r
  end.

Definition dispatch (fid : Z) (args : list (list Z)) : list Z :=
  if fid =? 2501 then enc_res id_list (bytes_to_felts (seg args 0))
  else if fid =? 2502 then enc_res id_list (felts_to_bytes (seg args 0))
  else if fid =? 2503 then enc_res id_list (bytes_digest_try_from (seg args 0))
  else if fid =? 2504 then enc_res id_list (bytes_digest_try_from (seg args 0))
  else if fid =? 2505 then bytes_to_digest (seg args 0) ++ map to_canonical (bytes_to_digest (seg args 0))
  else if fid =? 2506 then digest_to_bytes (seg args 0)
  else if fid =? 2507 then enc_res id_list (utils_digest_to_bytes (seg args 0))
  else if fid =? 2508 then u64_to_felts (arg args 0 0)
  else if fid =? 2509 then enc_res (fun v => [v]) (try_felts_to_u64 (seg args 0))
  else if fid =? 2510 then u128_to_felts (u128_of (arg args 0 0) (arg args 0 1))
  else if fid =? 2511 then enc_res enc_u128 (try_felts_to_u128 (seg args 0))
  else if fid =? 2512 then enc_res (fun v => [v]) (try_u128_to_quantized_felt (u128_of (arg args 0 0) (arg args 0 1)))
  else if fid =? 2513 then enc_res enc_u128 (try_felt_to_quantized_u128 (arg args 0 0))
  else if fid =? 2514 then enc_res id_list (bytes_to_felts (seg args 0))
  else if fid =? 2515 then enc_res id_list (felts_to_bytes (seg args 0))
  else if fid =? 2521 then enc_res id_list (bytes_to_felts (described args 0))
  else if fid =? 2522 then enc_res id_list (felts_to_bytes (described args 0))
  else if fid =? 2601 then
    let t := tbl_of_segs (skipn 1 args) in
    with_preimage t (compact_preimage (seg args 0)) (hash_bytes_compact (H_tbl t) (seg args 0))
  else if fid =? 2602 then
    let t := tbl_of_segs (skipn 4 args) in
    let cs := firstn 4 args in
    with_preimage t (compact_preimage (concat (sort_children cs))) (hash_node (H_tbl t) cs)
  else if fid =? 2603 then
    let t := tbl_of_segs (skipn 4 args) in
    let cs := firstn 4 args in
    with_preimage t (compact_preimage (concat cs)) (hash_node_presorted (H_tbl t) cs)
  else if fid =? 2604 then [if is_canonical_hash (seg args 0) then 1 else 0]
  else if fid =? 2605 then enc_res id_list (bytes_to_felts_compact_strict (seg args 0))
  else if fid =? 2611 then
    let t := tbl_of_segs (skipn 2 args) in
    with_preimage t (compact_preimage (described args 0)) (hash_bytes_compact (H_tbl t) (described args 0))
  else [-2].
