(* Proofs about the transfer-proof document parser model (C35). *)
From V.Base Require Import Common.
From V.Generated Require Import Constants.
From V.Sys Require Import TransferJson.

Definition sum (l : list Z) : Z := fold_right Z.add 0 l.
Definition nonneg (l : list Z) : Prop := Forall (fun x => 0 <= x) l.
Definition all_u64 (l : list Z) : Prop := Forall (fun x => 0 <= x < two64) l.

(* values of the entries with key k, in document order *)
Definition vals (es : list entry) (k : Z) : list jval :=
  map snd (filter (fun e => fst e =? k) es).
(* "key k occurs exactly once in the object, with value v" *)
Definition field (es : list entry) (k : Z) (v : jval) : Prop := vals es k = [v].

(* the harness-side description is meaningful: lengths are lengths *)
Definition jval_ok (v : jval) : Prop :=
  match v with JStr len => 0 <= len | JStrs lens => nonneg lens | _ => True end.
Definition entries_ok (es : list entry) : Prop := Forall (fun e => jval_ok (snd e)) es.

(* ---------------------------------------------------------------- generic helpers *)

Lemma guard_ok_iff (b : bool) (code : Z) : guard b code = Ok tt <-> b = true.
Proof. destruct b; cbn; split; intro H; try reflexivity; discriminate H. Qed.

Lemma bind_unit_ok_iff {B} (m : res unit) (k : res B) (r : B) :
  (_ <-? m ;; k) = Ok r <-> m = Ok tt /\ k = Ok r.
Proof.
  destruct m as [[]|c]; cbn [rbind]; split.
  - intro H; split; [reflexivity|exact H].
  - intros [_ H]; exact H.
  - intro H; discriminate H.
  - intros [H _]; discriminate H.
Qed.

Lemma bind_ok_iff {A B} (m : res A) (k : A -> res B) (r : B) :
  (x <-? m ;; k x) = Ok r <-> exists a, m = Ok a /\ k a = Ok r.
Proof.
  destruct m as [a|c]; cbn [rbind]; split.
  - intro H; exists a; split; [reflexivity|exact H].
  - intros (a' & E & H). inversion E; subst. exact H.
  - intro H; discriminate H.
  - intros (a' & E & _). discriminate E.
Qed.

Lemma zlen_cons' {A} (x : A) (l : list A) : zlen (x :: l) = zlen l + 1.
Proof. rewrite zlen_cons. lia. Qed.

(* ---------------------------------------------------------------- the storage-proof visitor *)

Lemma sp_visit_iff (rest : list Z) : forall out_len total,
  nonneg rest -> 0 <= out_len <= MAX_STORAGE_PROOF_NODES -> 0 <= total <= MAX_STORAGE_PROOF_HEX_BYTES ->
  (sp_visit rest out_len total = Ok tt <->
   out_len + zlen rest <= MAX_STORAGE_PROOF_NODES /\
   Forall (fun n => n <= MAX_STORAGE_PROOF_NODE_HEX_LEN) rest /\
   total + sum rest <= MAX_STORAGE_PROOF_HEX_BYTES).
Proof.
  induction rest as [|n r IH]; intros out_len total Hnn Hol Htot.
  - cbn [sp_visit]. rewrite zlen_nil. cbn [sum fold_right].
    destruct (out_len <? MAX_STORAGE_PROOF_NODES); (split; [intros _; repeat split; [lia|constructor|lia] | reflexivity]).
  - inversion Hnn as [|? ? Hn Hr]; subst.
    cbn [sp_visit]. rewrite zlen_cons'. cbn [sum fold_right]. fold (sum r).
    destruct (out_len <? MAX_STORAGE_PROOF_NODES) eqn:El.
    + apply Z.ltb_lt in El.
      unfold de_node. rewrite bind_ok_iff.
      split.
      * intros (node & Hnode & Hrest).
        rewrite bind_unit_ok_iff, guard_ok_iff, negb_true_iff, Z.ltb_ge in Hnode.
        destruct Hnode as [Hcap Hnode]. inversion Hnode; subst node.
        unfold checked_add in Hrest.
        destruct (total + n <? two64); [|discriminate Hrest].
        rewrite bind_unit_ok_iff, guard_ok_iff, negb_true_iff, Z.ltb_ge in Hrest.
        destruct Hrest as [Ht Hrest].
        apply IH in Hrest; [| exact Hr | lia | lia].
        destruct Hrest as (H1 & H2 & H3).
        repeat split; [lia | constructor; assumption | lia].
      * intros (H1 & H2 & H3). inversion H2 as [|? ? Hcap H2r]; subst.
        assert (Hsr : 0 <= sum r).
        { clear -Hr. induction Hr as [|x l Hx Hl IHl]; cbn [sum fold_right]; [lia | fold (sum l); lia]. }
        exists n. split.
        { rewrite bind_unit_ok_iff, guard_ok_iff, negb_true_iff, Z.ltb_ge. split; [lia|reflexivity]. }
        unfold checked_add.
        assert (E64 : total + n <? two64 = true).
        { apply Z.ltb_lt. change MAX_STORAGE_PROOF_HEX_BYTES with 1048576 in *. unfold two64. lia. }
        rewrite E64.
        rewrite bind_unit_ok_iff, guard_ok_iff, negb_true_iff, Z.ltb_ge.
        split; [lia|].
        apply IH; [exact Hr | lia | lia |]. repeat split; [lia | exact H2r | lia].
    + apply Z.ltb_ge in El. split; [intro H; discriminate H|].
      intros (H1 & _ & _). pose proof (zlen_nonneg r). lia.
Qed.

Lemma de_storage_proof_iff (v : jval) (l : list Z) :
  jval_ok v ->
  (de_storage_proof v = Ok l <->
   as_strs v = Some l /\ zlen l <= MAX_STORAGE_PROOF_NODES /\
   Forall (fun n => n <= MAX_STORAGE_PROOF_NODE_HEX_LEN) l /\ sum l <= MAX_STORAGE_PROOF_HEX_BYTES).
Proof.
  intro Hok. unfold de_storage_proof.
  destruct (as_strs v) as [lens|] eqn:Ea.
  - assert (Hnn : nonneg lens).
    { destruct v as [x|x|ls|vs|]; cbn in Ea; try discriminate Ea.
      - inversion Ea; subst. exact Hok.
      - destruct vs; [inversion Ea; constructor | discriminate Ea]. }
    rewrite bind_unit_ok_iff.
    rewrite (sp_visit_iff lens 0 0 Hnn) by (change MAX_STORAGE_PROOF_NODES with 1024; change MAX_STORAGE_PROOF_HEX_BYTES with 1048576; lia).
    rewrite !Z.add_0_l.
    split.
    + intros [H E]. inversion E; subst. split; [reflexivity|exact H].
    + intros [E H]. inversion E; subst. split; [exact H|reflexivity].
  - split; [intro H; discriminate H | intros [E _]; discriminate E].
Qed.

(* ---------------------------------------------------------------- the bounded index visitor *)

Lemma bv_visit_iff (rest : list Z) : forall out_len,
  0 <= out_len <= MAX_MERKLE_INDICES ->
  (bv_visit rest out_len = Ok tt <-> all_u64 rest /\ out_len + zlen rest <= MAX_MERKLE_INDICES).
Proof.
  induction rest as [|x r IH]; intros out_len Hol.
  - cbn [bv_visit]. rewrite zlen_nil. split; [intros _; split; [constructor|lia] | reflexivity].
  - cbn [bv_visit]. rewrite zlen_cons'.
    rewrite !bind_unit_ok_iff, !guard_ok_iff, negb_true_iff, Z.leb_gt.
    unfold is_u64. rewrite andb_true_iff, Z.leb_le, Z.ltb_lt.
    split.
    + intros (Hx & Hlt & Hrest). apply IH in Hrest; [|lia]. destruct Hrest as [Hr Hl].
      split; [constructor; [lia|exact Hr] | lia].
    + intros (Hall & Hl). inversion Hall as [|? ? Hx Hr]; subst.
      pose proof (zlen_nonneg r).
      repeat split; try lia. apply IH; [lia|]. split; [exact Hr|lia].
Qed.

Lemma de_indices_iff (v : jval) (l : list Z) :
  de_indices v = Ok l <-> as_ints v = Some l /\ all_u64 l /\ zlen l <= MAX_MERKLE_INDICES.
Proof.
  unfold de_indices. destruct (as_ints v) as [vs|].
  - rewrite bind_unit_ok_iff.
    rewrite (bv_visit_iff vs 0) by (change MAX_MERKLE_INDICES with 1024; lia). rewrite Z.add_0_l.
    split.
    + intros [H E]. inversion E; subst. split; [reflexivity|exact H].
    + intros [E H]. inversion E; subst. split; [exact H|reflexivity].
  - split; [intro H; discriminate H | intros [E _]; discriminate E].
Qed.

Lemma de_u64_iff (v : jval) (x : Z) : de_u64 v = Ok x <-> v = JInt x /\ 0 <= x < two64.
Proof.
  destruct v as [y|y|ls|vs|]; cbn [de_u64]; try (split; [intro H; discriminate H | intros [E _]; discriminate E]).
  rewrite bind_unit_ok_iff, guard_ok_iff. unfold is_u64. rewrite andb_true_iff, Z.leb_le, Z.ltb_lt.
  split.
  - intros [H E]. inversion E; subst. split; [reflexivity|exact H].
  - intros [E H]. inversion E; subst. split; [exact H|reflexivity].
Qed.

Lemma de_state_root_iff (v : jval) (x : Z) :
  de_state_root v = Ok x <-> v = JStr x /\ x <= MAX_STATE_ROOT_HEX_LEN.
Proof.
  destruct v as [y|y|ls|vs|]; cbn [de_state_root]; try (split; [intro H; discriminate H | intros [E _]; discriminate E]).
  rewrite bind_unit_ok_iff, guard_ok_iff, negb_true_iff, Z.ltb_ge.
  split.
  - intros [H E]. inversion E; subst. split; [reflexivity|exact H].
  - intros [E H]. inversion E; subst. split; [exact H|reflexivity].
Qed.

(* ---------------------------------------------------------------- the derived map visitor *)

(* what one field slot goes through while the entries [vs] carrying its key are visited *)
Definition slot_rel {A} (de : jval -> res A) (cur : option A) (vs : list jval) (out : option A) : Prop :=
  match cur with
  | Some x => vs = [] /\ out = Some x
  | None => (vs = [] /\ out = None) \/ (exists v x, vs = [v] /\ de v = Ok x /\ out = Some x)
  end.

Lemma slot_rel_nil {A} (de : jval -> res A) cur out : slot_rel de cur [] out <-> out = cur.
Proof.
  destruct cur as [x|]; cbn [slot_rel].
  - split; [intros [_ H]; exact H | intro H; split; [reflexivity|exact H]].
  - split.
    + intros [[_ H] | (v & x & E & _)]; [exact H | discriminate E].
    + intro H; left; split; [reflexivity|exact H].
Qed.

Lemma slot_rel_cons_some {A} (de : jval -> res A) x v vs out : slot_rel de (Some x) (v :: vs) out <-> False.
Proof. cbn [slot_rel]. split; [intros [E _]; discriminate E | intros []]. Qed.

Lemma slot_rel_cons_none {A} (de : jval -> res A) v vs out :
  slot_rel de None (v :: vs) out <-> exists x, de v = Ok x /\ slot_rel de (Some x) vs out.
Proof.
  cbn [slot_rel]. split.
  - intros [[E _] | (v' & x & E & Hd & Ho)]; [discriminate E|].
    inversion E; subst. exists x. repeat split; auto.
  - intros (x & Hd & -> & Ho). right. exists v, x. repeat split; assumption.
Qed.

Lemma slot_rel_none_some {A} (de : jval -> res A) vs x :
  slot_rel de None vs (Some x) <-> exists v, vs = [v] /\ de v = Ok x.
Proof.
  cbn [slot_rel]. split.
  - intros [[_ E] | (v & y & E & Hd & Ho)]; [discriminate E|]. inversion Ho; subst. exists v. split; auto.
  - intros (v & E & Hd). right. exists v, x. repeat split; assumption.
Qed.

Lemma vals_cons k v r j : vals ((k, v) :: r) j = if k =? j then v :: vals r j else vals r j.
Proof. unfold vals. cbn [filter fst]. destruct (k =? j); reflexivity. Qed.

Lemma slots_eq (s s' : Slots) :
  Ok s = Ok s' <-> s_tc s' = s_tc s /\ s_sr s' = s_sr s /\ s_sp s' = s_sp s /\ s_ix s' = s_ix s.
Proof.
  destruct s, s'; cbn. split.
  - intro H; inversion H; subst; repeat split.
  - intros (-> & -> & -> & ->). reflexivity.
Qed.

Lemma visit_map_spec (es : list entry) : forall s s',
  visit_map es s = Ok s' <->
  slot_rel de_u64 (s_tc s) (vals es K_TRANSFER_COUNT) (s_tc s') /\
  slot_rel de_state_root (s_sr s) (vals es K_STATE_ROOT) (s_sr s') /\
  slot_rel de_storage_proof (s_sp s) (vals es K_STORAGE_PROOF) (s_sp s') /\
  slot_rel de_indices (s_ix s) (vals es K_INDICES) (s_ix s').
Proof.
  induction es as [|[k v] r IH]; intros s s'.
  - cbn [visit_map]. unfold vals; cbn [filter map]. rewrite !slot_rel_nil. apply slots_eq.
  - cbn [visit_map]. rewrite !vals_cons.
    unfold K_TRANSFER_COUNT, K_STATE_ROOT, K_STORAGE_PROOF, K_INDICES in *.
    destruct (k =? 1) eqn:E1.
    { apply Z.eqb_eq in E1; subst k. cbn [Z.eqb Pos.eqb].
      destruct (s_tc s) as [x0|].
      - rewrite slot_rel_cons_some. split; [intro H; discriminate H | tauto].
      - rewrite slot_rel_cons_none, bind_ok_iff.
        split.
        + intros (x & Hd & Hv). apply IH in Hv. cbn [s_tc s_sr s_sp s_ix] in Hv.
          destruct Hv as (H1 & H2 & H3 & H4).
          split; [exists x; split; [exact Hd|exact H1] | split; [exact H2 | split; [exact H3 | exact H4]]].
        + intros ((x & Hd & H1) & H2 & H3 & H4). exists x. split; [exact Hd|].
          apply IH. cbn [s_tc s_sr s_sp s_ix].
          split; [exact H1 | split; [exact H2 | split; [exact H3 | exact H4]]]. }
    destruct (k =? 2) eqn:E2.
    { apply Z.eqb_eq in E2; subst k. cbn [Z.eqb Pos.eqb].
      destruct (s_sr s) as [x0|].
      - rewrite slot_rel_cons_some. split; [intro H; discriminate H | tauto].
      - rewrite slot_rel_cons_none, bind_ok_iff.
        split.
        + intros (x & Hd & Hv). apply IH in Hv. cbn [s_tc s_sr s_sp s_ix] in Hv.
          destruct Hv as (H1 & H2 & H3 & H4).
          split; [exact H1 | split; [exists x; split; [exact Hd|exact H2] | split; [exact H3 | exact H4]]].
        + intros (H1 & (x & Hd & H2) & H3 & H4). exists x. split; [exact Hd|].
          apply IH. cbn [s_tc s_sr s_sp s_ix].
          split; [exact H1 | split; [exact H2 | split; [exact H3 | exact H4]]]. }
    destruct (k =? 3) eqn:E3.
    { apply Z.eqb_eq in E3; subst k. cbn [Z.eqb Pos.eqb].
      destruct (s_sp s) as [x0|].
      - rewrite slot_rel_cons_some. split; [intro H; discriminate H | tauto].
      - rewrite slot_rel_cons_none, bind_ok_iff.
        split.
        + intros (x & Hd & Hv). apply IH in Hv. cbn [s_tc s_sr s_sp s_ix] in Hv.
          destruct Hv as (H1 & H2 & H3 & H4).
          split; [exact H1 | split; [exact H2 | split; [exists x; split; [exact Hd|exact H3] | exact H4]]].
        + intros (H1 & H2 & (x & Hd & H3) & H4). exists x. split; [exact Hd|].
          apply IH. cbn [s_tc s_sr s_sp s_ix].
          split; [exact H1 | split; [exact H2 | split; [exact H3 | exact H4]]]. }
    destruct (k =? 4) eqn:E4.
    { apply Z.eqb_eq in E4; subst k. cbn [Z.eqb Pos.eqb].
      destruct (s_ix s) as [x0|].
      - rewrite slot_rel_cons_some. split; [intro H; discriminate H | tauto].
      - rewrite slot_rel_cons_none, bind_ok_iff.
        split.
        + intros (x & Hd & Hv). apply IH in Hv. cbn [s_tc s_sr s_sp s_ix] in Hv.
          destruct Hv as (H1 & H2 & H3 & H4).
          split; [exact H1 | split; [exact H2 | split; [exact H3 | exists x; split; [exact Hd|exact H4]]]].
        + intros (H1 & H2 & H3 & (x & Hd & H4)). exists x. split; [exact Hd|].
          apply IH. cbn [s_tc s_sr s_sp s_ix].
          split; [exact H1 | split; [exact H2 | split; [exact H3 | exact H4]]]. }
    apply IH.
Qed.

Lemma finish_ok_iff (s : Slots) (d : Doc) :
  finish s = Ok d <->
  s_tc s = Some (d_transfer_count d) /\ s_sr s = Some (d_state_root_len d) /\
  s_sp s = Some (d_nodes d) /\ s_ix s = Some (d_indices d).
Proof.
  destruct s as [[a|] [b|] [c|] [e|]], d as [a' b' c' e']; cbn;
    (split; [intro H; inversion H; subst; repeat split
            | intros (H1 & H2 & H3 & H4); try discriminate H1; try discriminate H2; try discriminate H3;
              try discriminate H4; inversion H1; inversion H2; inversion H3; inversion H4; subst; reflexivity]).
Qed.

Lemma parse_obj_ok_iff (es : list entry) (d : Doc) :
  parse_obj es = Ok d <->
  (exists v, field es K_TRANSFER_COUNT v /\ de_u64 v = Ok (d_transfer_count d)) /\
  (exists v, field es K_STATE_ROOT v /\ de_state_root v = Ok (d_state_root_len d)) /\
  (exists v, field es K_STORAGE_PROOF v /\ de_storage_proof v = Ok (d_nodes d)) /\
  (exists v, field es K_INDICES v /\ de_indices v = Ok (d_indices d)).
Proof.
  unfold parse_obj, field.
  rewrite bind_ok_iff.
  split.
  - intros (s' & Hv & Hf).
    apply visit_map_spec in Hv. cbn [no_slots s_tc s_sr s_sp s_ix] in Hv.
    apply finish_ok_iff in Hf. destruct Hf as (F1 & F2 & F3 & F4).
    rewrite F1, F2, F3, F4 in Hv. rewrite !slot_rel_none_some in Hv.
    exact Hv.
  - intros (H1 & H2 & H3 & H4).
    exists (mkSlots (Some (d_transfer_count d)) (Some (d_state_root_len d)) (Some (d_nodes d)) (Some (d_indices d))).
    split.
    + apply visit_map_spec. cbn [no_slots s_tc s_sr s_sp s_ix]. rewrite !slot_rel_none_some.
      split; [exact H1 | split; [exact H2 | split; [exact H3 | exact H4]]].
    + destruct d; reflexivity.
Qed.

Lemma parse_seq_ok_iff (vs : list jval) (d : Doc) :
  parse_seq vs = Ok d <->
  exists a b c e, vs = [a; b; c; e] /\
    de_u64 a = Ok (d_transfer_count d) /\ de_state_root b = Ok (d_state_root_len d) /\
    de_storage_proof c = Ok (d_nodes d) /\ de_indices e = Ok (d_indices d).
Proof.
  split.
  - intro H.
    destruct vs as [|a [|b [|c [|e [|x r]]]]]; cbn [parse_seq] in H; try discriminate H.
    rewrite bind_ok_iff in H. destruct H as (tc & H1 & H).
    rewrite bind_ok_iff in H. destruct H as (sr & H2 & H).
    rewrite bind_ok_iff in H. destruct H as (sp & H3 & H).
    rewrite bind_ok_iff in H. destruct H as (ix & H4 & H).
    inversion H; subst d. cbn [d_transfer_count d_state_root_len d_nodes d_indices].
    exists a, b, c, e. repeat split; assumption.
  - intros (a & b & c & e & -> & H1 & H2 & H3 & H4). cbn [parse_seq].
    rewrite H1, H2, H3, H4. cbn [rbind]. destruct d; reflexivity.
Qed.

Lemma vals_in (es : list entry) (k : Z) (v : jval) : In v (vals es k) -> In (k, v) es.
Proof.
  unfold vals. intro H. apply in_map_iff in H. destruct H as ([k' v'] & E & Hin).
  apply filter_In in Hin. destruct Hin as [Hin Hk]. cbn in E, Hk. apply Z.eqb_eq in Hk. subst. exact Hin.
Qed.

Lemma field_ok (es : list entry) (k : Z) (v : jval) : entries_ok es -> field es k v -> jval_ok v.
Proof.
  intros Hes Hf. unfold entries_ok in Hes. rewrite Forall_forall in Hes.
  assert (Hin : In (k, v) es) by (apply vals_in; unfold field in Hf; rewrite Hf; left; reflexivity).
  exact (Hes _ Hin).
Qed.

(* ---------------------------------------------------------------- from_json_str *)

Definition top_ok (t : top) : Prop :=
  match t with TObj es => entries_ok es | TSeq vs => Forall jval_ok vs end.

(* "the document carries the four fields, each exactly once and of the right JSON shape, and [d] is their
   decoded content": as members of a top-level object (any order, unknown members ignored) or as the
   four elements of a top-level array (declaration order) *)
Definition decodes_to (t : top) (d : Doc) : Prop :=
  match t with
  | TObj es =>
    field es K_TRANSFER_COUNT (JInt (d_transfer_count d)) /\
    field es K_STATE_ROOT (JStr (d_state_root_len d)) /\
    (exists v, field es K_STORAGE_PROOF v /\ as_strs v = Some (d_nodes d)) /\
    (exists v, field es K_INDICES v /\ as_ints v = Some (d_indices d))
  | TSeq vs =>
    exists v3 v4, vs = [JInt (d_transfer_count d); JStr (d_state_root_len d); v3; v4] /\
                  as_strs v3 = Some (d_nodes d) /\ as_ints v4 = Some (d_indices d)
  end.

Definition within_caps (d : Doc) : Prop :=
  0 <= d_transfer_count d < two64 /\
  d_state_root_len d <= 64 /\
  zlen (d_nodes d) <= 1024 /\ Forall (fun n => n <= 1048576) (d_nodes d) /\ sum (d_nodes d) <= 1048576 /\
  all_u64 (d_indices d) /\ zlen (d_indices d) <= 1024.

Lemma from_json_str_raw_cap_first (raw_len : Z) (wf : bool) (t : top) :
  MAX_TRANSFER_PROOF_JSON_BYTES < raw_len -> from_json_str raw_len wf t = Err E_RAW.
Proof. intro H. unfold from_json_str. apply Z.ltb_lt in H. rewrite H. reflexivity. Qed.

Lemma from_json_str_ok_iff_parse (raw_len : Z) (wf : bool) (t : top) (d : Doc) :
  from_json_str raw_len wf t = Ok d <-> raw_len <= MAX_TRANSFER_PROOF_JSON_BYTES /\ serde_parse wf t = Ok d.
Proof.
  unfold from_json_str.
  destruct (MAX_TRANSFER_PROOF_JSON_BYTES <? raw_len) eqn:E.
  - apply Z.ltb_lt in E. split; [intro H; discriminate H | intros [H _]; lia].
  - apply Z.ltb_ge in E. destruct (serde_parse wf t) as [d'|c].
    + split; [intro H; split; [exact E|exact H] | intros [_ H]; exact H].
    + split; [intro H; discriminate H | intros [_ H]; discriminate H].
Qed.

Lemma four_fields_iff (v1 v2 v3 v4 : jval) (d : Doc) :
  jval_ok v3 ->
  (de_u64 v1 = Ok (d_transfer_count d) /\ de_state_root v2 = Ok (d_state_root_len d) /\
   de_storage_proof v3 = Ok (d_nodes d) /\ de_indices v4 = Ok (d_indices d)
   <->
   v1 = JInt (d_transfer_count d) /\ v2 = JStr (d_state_root_len d) /\
   as_strs v3 = Some (d_nodes d) /\ as_ints v4 = Some (d_indices d) /\ within_caps d).
Proof.
  intro Hok. unfold within_caps.
  rewrite de_u64_iff, de_state_root_iff, (de_storage_proof_iff v3 _ Hok), de_indices_iff.
  change MAX_STATE_ROOT_HEX_LEN with 64. change MAX_STORAGE_PROOF_NODES with 1024.
  change MAX_STORAGE_PROOF_NODE_HEX_LEN with 1048576. change MAX_STORAGE_PROOF_HEX_BYTES with 1048576.
  change MAX_MERKLE_INDICES with 1024.
  tauto.
Qed.

(* C35: exact acceptance set *)
Lemma from_json_str_accept_iff (raw_len : Z) (wf : bool) (t : top) (d : Doc) :
  top_ok t ->
  (from_json_str raw_len wf t = Ok d <->
   raw_len <= 8388608 /\ wf = true /\ decodes_to t d /\ within_caps d).
Proof.
  intro Hok.
  rewrite from_json_str_ok_iff_parse.
  change MAX_TRANSFER_PROOF_JSON_BYTES with 8388608.
  unfold serde_parse. rewrite bind_unit_ok_iff, guard_ok_iff.
  destruct t as [es|vs]; cbn [decodes_to top_ok] in *.
  - rewrite parse_obj_ok_iff.
    split.
    + intros (Hraw & Hwf & (v1 & F1 & D1) & (v2 & F2 & D2) & (v3 & F3 & D3) & (v4 & F4 & D4)).
      pose proof (field_ok es _ v3 Hok F3) as Hok3.
      destruct (proj1 (four_fields_iff v1 v2 v3 v4 d Hok3) (conj D1 (conj D2 (conj D3 D4))))
        as (-> & -> & A3 & A4 & Hc).
      split; [exact Hraw|]. split; [exact Hwf|]. split; [|exact Hc].
      split; [exact F1|]. split; [exact F2|]. split; [exists v3; split; assumption | exists v4; split; assumption].
    + intros (Hraw & Hwf & (F1 & F2 & (v3 & F3 & A3) & (v4 & F4 & A4)) & Hc).
      pose proof (field_ok es _ v3 Hok F3) as Hok3.
      destruct (proj2 (four_fields_iff _ _ v3 v4 d Hok3) (conj eq_refl (conj eq_refl (conj A3 (conj A4 Hc)))))
        as (D1 & D2 & D3 & D4).
      split; [exact Hraw|]. split; [exact Hwf|].
      split; [eexists; split; [exact F1|exact D1]|].
      split; [eexists; split; [exact F2|exact D2]|].
      split; [exists v3; split; assumption | exists v4; split; assumption].
  - rewrite parse_seq_ok_iff.
    split.
    + intros (Hraw & Hwf & a & b & c & e & -> & D1 & D2 & D3 & D4).
      assert (Hok3 : jval_ok c).
      { inversion Hok as [|? ? _ H1]; subst. inversion H1 as [|? ? _ H2]; subst.
        inversion H2 as [|? ? H3 _]; subst. exact H3. }
      destruct (proj1 (four_fields_iff a b c e d Hok3) (conj D1 (conj D2 (conj D3 D4))))
        as (-> & -> & A3 & A4 & Hc).
      split; [exact Hraw|]. split; [exact Hwf|]. split; [|exact Hc].
      exists c, e. split; [reflexivity|]. split; assumption.
    + intros (Hraw & Hwf & (v3 & v4 & -> & A3 & A4) & Hc).
      assert (Hok3 : jval_ok v3).
      { inversion Hok as [|? ? _ H1]; subst. inversion H1 as [|? ? _ H2]; subst.
        inversion H2 as [|? ? H3 _]; subst. exact H3. }
      destruct (proj2 (four_fields_iff _ _ v3 v4 d Hok3) (conj eq_refl (conj eq_refl (conj A3 (conj A4 Hc)))))
        as (D1 & D2 & D3 & D4).
      split; [exact Hraw|]. split; [exact Hwf|].
      eexists _, _, _, _. split; [reflexivity|]. repeat split; assumption.
Qed.

(* the result is Ok, the raw-cap error or the parse error: no other class (in particular no panic) *)
Lemma from_json_str_total (raw_len : Z) (wf : bool) (t : top) :
  (exists d, from_json_str raw_len wf t = Ok d) \/ from_json_str raw_len wf t = Err E_RAW
  \/ from_json_str raw_len wf t = Err E_PARSE.
Proof.
  unfold from_json_str. destruct (MAX_TRANSFER_PROOF_JSON_BYTES <? raw_len); [right; left; reflexivity|].
  destruct (serde_parse wf t) as [d|c]; [left; exists d; reflexivity | right; right; reflexivity].
Qed.

(* whatever the accepted document looked like, its node lengths are lengths *)
Lemma decodes_to_nonneg (t : top) (d : Doc) : top_ok t -> decodes_to t d -> nonneg (d_nodes d).
Proof.
  intros Hok Hd.
  assert (Hv : exists v, jval_ok v /\ as_strs v = Some (d_nodes d)).
  { destruct t as [es|vs]; cbn [decodes_to top_ok] in *.
    - destruct Hd as (_ & _ & (v3 & F3 & A3) & _). exists v3. split; [exact (field_ok es _ v3 Hok F3)|exact A3].
    - destruct Hd as (v3 & v4 & -> & A3 & _). exists v3. split; [|exact A3].
      inversion Hok as [|? ? _ H1]; subst. inversion H1 as [|? ? _ H2]; subst.
      inversion H2 as [|? ? H3 _]; subst. exact H3. }
  destruct Hv as (v & Hvok & A).
  destruct v as [x|x|ls|vs'|]; cbn in A; try discriminate A.
  - inversion A; subst. exact Hvok.
  - destruct vs'; [inversion A; constructor | discriminate A].
Qed.

(* ---------------------------------------------------------------- validate *)

Lemma validate_nodes_iff (nodes : list Z) : forall total,
  nonneg nodes -> 0 <= total <= MAX_STORAGE_PROOF_HEX_BYTES ->
  (validate_nodes nodes total = Ok tt <->
   Forall (fun n => n <= MAX_STORAGE_PROOF_NODE_HEX_LEN) nodes /\ total + sum nodes <= MAX_STORAGE_PROOF_HEX_BYTES).
Proof.
  induction nodes as [|n r IH]; intros total Hnn Htot.
  - cbn [validate_nodes sum fold_right]. split; [intros _; split; [constructor|lia] | reflexivity].
  - inversion Hnn as [|? ? Hn Hr]; subst.
    cbn [validate_nodes sum fold_right]. fold (sum r).
    rewrite bind_unit_ok_iff, guard_ok_iff, negb_true_iff, Z.ltb_ge.
    assert (Hsr : 0 <= sum r).
    { clear -Hr. induction Hr as [|x l Hx Hl IHl]; cbn [sum fold_right]; [lia | fold (sum l); lia]. }
    split.
    + intros [Hcap Hrest]. unfold checked_add in Hrest.
      destruct (total + n <? two64); [|discriminate Hrest].
      rewrite bind_unit_ok_iff, guard_ok_iff, negb_true_iff, Z.ltb_ge in Hrest.
      destruct Hrest as [Ht Hrest]. apply IH in Hrest; [|exact Hr|lia].
      destruct Hrest as [H2 H3]. split; [constructor; assumption | lia].
    + intros [H2 H3]. inversion H2 as [|? ? Hcap H2r]; subst. split; [exact Hcap|].
      unfold checked_add.
      assert (E64 : total + n <? two64 = true).
      { apply Z.ltb_lt. change MAX_STORAGE_PROOF_HEX_BYTES with 1048576 in *.
        change MAX_STORAGE_PROOF_NODE_HEX_LEN with 1048576 in *. unfold two64. lia. }
      rewrite E64. rewrite bind_unit_ok_iff, guard_ok_iff, negb_true_iff, Z.ltb_ge.
      split; [lia|]. apply IH; [exact Hr|lia|]. split; [exact H2r|lia].
Qed.

Lemma validate_ok_iff (d : Doc) :
  nonneg (d_nodes d) ->
  (validate d = Ok tt <->
   d_state_root_len d <= 64 /\ zlen (d_nodes d) <= 1024 /\
   Forall (fun n => n <= 1048576) (d_nodes d) /\ sum (d_nodes d) <= 1048576 /\
   zlen (d_indices d) <= 1024).
Proof.
  intro Hnn. unfold validate.
  rewrite !bind_unit_ok_iff, !guard_ok_iff, !negb_true_iff, !Z.ltb_ge.
  rewrite (validate_nodes_iff (d_nodes d) 0 Hnn) by (change MAX_STORAGE_PROOF_HEX_BYTES with 1048576; lia).
  rewrite Z.add_0_l.
  change MAX_STATE_ROOT_HEX_LEN with 64. change MAX_STORAGE_PROOF_NODES with 1024.
  change MAX_STORAGE_PROOF_NODE_HEX_LEN with 1048576. change MAX_STORAGE_PROOF_HEX_BYTES with 1048576.
  change MAX_MERKLE_INDICES with 1024.
  tauto.
Qed.

(* C35: everything accepted also passes the standalone validation *)
Lemma accept_implies_validate (raw_len : Z) (wf : bool) (t : top) (d : Doc) :
  top_ok t -> from_json_str raw_len wf t = Ok d -> validate d = Ok tt.
Proof.
  intros Hok H. apply (from_json_str_accept_iff raw_len wf t d Hok) in H.
  destruct H as (_ & _ & Hd & (_ & R2 & L3 & N3 & S3 & _ & L4)).
  apply validate_ok_iff; [exact (decodes_to_nonneg t d Hok Hd) | repeat split; assumption].
Qed.
