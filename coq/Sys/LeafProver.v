(* Leaf proving, prover side (C05): wormhole/prover/src/lib.rs fill_witness (line 187) with
   ZkMerkleProofData::try_from (wormhole/circuit/src/zk_merkle_proof.rs:424) and the fill_targets of
   the fragments: from the caller's inputs to the assignment of the leaf circuit's input targets
   ([Leaf.LeafIn]), or an error.  Byte-level conversions (32 bytes <-> 4 little-endian u64 limbs,
   u64 <-> two 32-bit limbs, 110 digest bytes <-> 28 felts) are done by the harness with the repo's own
   functions and are the subject of C25; here digests are 4 limbs.  Model only. *)
From Coq Require Import ZArith Lia List Bool.
From V.Base Require Import Common.
From V.Generated Require Import Constants.
From V.Circ Require Import Field Core Prims Gadgets GadgetsRun Leaf.
From V.Sys Require Import Parsers.
Import ListNotations.
Open Scope Z_scope.

Record ProverIn := mkProverIn {
  (* PublicCircuitInputs *)
  x_asset : Z; x_out1 : Z; x_out2 : Z; x_fee : Z;
  x_nullifier : list Z; x_exit1 : list Z; x_exit2 : list Z; x_block_hash : list Z; x_block_number : Z;
  (* PrivateCircuitInputs *)
  x_secret : list Z; x_transfer_count : Z; x_unspendable_account : list Z;
  x_parent_hash : list Z; x_state_root : list Z; x_extrinsics_root : list Z; x_digest : list Z;
  x_input_amount : Z; x_tree_root : list Z;
  x_siblings : list (list (list Z)); x_positions : list Z }.

Definition tc_limbs (tc : Z) : list Z := [tc / two32; tc mod two32].      (* u64_to_felts: high limb first *)

Definition x_is_dummy (x : ProverIn) : bool :=
  list_eqb (x_block_hash x) [0; 0; 0; 0] && (x_out1 x =? 0) && (x_out2 x =? 0).

Definition pad_levels (s : list (list (list Z))) : list (list (list Z)) :=
  s ++ repeat [[0;0;0;0]; [0;0;0;0]; [0;0;0;0]] (Z.to_nat MERKLE_MAX_DEPTH - length s).
Definition pad_positions (ps : list Z) : list Z := ps ++ repeat 0 (Z.to_nat MERKLE_MAX_DEPTH - length ps).

(* Err 1: depth > MAX_DEPTH; Err 2: positions/siblings length mismatch; Err 3: a position above 3 *)
Definition fill (x : ProverIn) : res LeafIn :=
  _ <-? guard (zlen (x_siblings x) <=? MERKLE_MAX_DEPTH) 1 ;;
  _ <-? guard (zlen (x_positions x) =? zlen (x_siblings x)) 2 ;;
  _ <-? guard (forallb (fun q => q <=? 3) (x_positions x)) 3 ;;
  Ok (mkLeafIn (x_asset x) (x_out1 x) (x_out2 x) (x_fee x)
               (x_unspendable_account x) (tc_limbs (x_transfer_count x)) (x_input_amount x)
               (x_tree_root x) (zlen (x_siblings x)) (if x_is_dummy x then 0 else 1)
               (pad_levels (x_siblings x)) (pad_positions (x_positions x))
               (x_nullifier x) (x_secret x) (tc_limbs (x_transfer_count x))
               (x_unspendable_account x) (x_secret x)
               (x_exit1 x) (x_exit2 x)
               (x_block_hash x) (x_parent_hash x) (x_block_number x) (x_state_root x) (x_extrinsics_root x)
               (x_tree_root x) (x_digest x)).

(* the 21 public inputs a proof of statement x must expose, in order *)
Definition layout21 (x : ProverIn) : list Z :=
  [x_asset x; x_out1 x; x_out2 x; x_fee x] ++ x_nullifier x ++ x_exit1 x ++ x_exit2 x
  ++ x_block_hash x ++ [x_block_number x].

(* commit / prove as the harness observes them:
   [0]          commit returned Err
   [2]          commit Ok, proving failed (the witness does not satisfy the circuit)
   1 :: pis     proof produced with these public inputs *)
Definition prove_outcome (H : list Z -> list Z) (x : ProverIn) : list Z :=
  match fill x with
  | Err _ => [0]
  | Ok i => match hon H (leaf_circuit i) with
            | Some pis => 1 :: pis
            | None => [2]
            end
  end.

(* segments: 0: [asset; out1; out2; fee; input_amount; transfer_count; block_number]
   1: nullifier 2: exit1 3: exit2 4: block_hash 5: secret 6: unspendable_account 7: parent_hash
   8: state_root 9: extrinsics_root 10: tree_root 11: digest (28 felts) 12: positions
   13..: siblings, three segments per level *)
Fixpoint group3 (l : list (list Z)) : list (list (list Z)) :=
  match l with
  | a :: b :: c :: r => [a; b; c] :: group3 r
  | _ => []
  end.
Definition prover_in_of_segs (a : list (list Z)) : ProverIn :=
  let g j := nth j (seg a 0) 0 in
  mkProverIn (g 0%nat) (g 1%nat) (g 2%nat) (g 3%nat) (seg a 1) (seg a 2) (seg a 3) (seg a 4) (g 6%nat)
             (seg a 5) (g 5%nat) (seg a 6) (seg a 7) (seg a 8) (seg a 9) (seg a 11) (g 4%nat) (seg a 10)
             (group3 (skipn 13 a)) (seg a 12).

Definition dispatch_h (H : list Z -> list Z) (fid : Z) (a : list (list Z)) : list Z :=
  if fid =? 501 then prove_outcome H (prover_in_of_segs a)
  else [-2].
