(* One dispatch for the "loaders" group: C17 (fids 17xx, Sys/Loaders.v), C18 (fids 18xx, Sys/AddressBinding.v),
   C11 (fids 11xx, Circ/Recursion.v).  Only decoding of the harness segments and instantiation of the Section
   variables happen here. *)
From V.Base Require Import Common.
From V.Generated Require Import Constants.
From V.Sys Require Loaders AddressBinding.
From V.Circ Require Recursion.

Definition seg (args : list (list Z)) (i : nat) : list Z := nth i args [].
Definition arg (args : list (list Z)) (i j : nat) : Z := nth j (seg args i) 0.

(* ---------------------------------------------------------------- C17 *)
Import Loaders.

(* external functions as finite tables filled by the harness (a missing entry = [] / None) *)
Definition tbl_fun (t : table) (b : bytes) : bytes := match tbl_lookup t b with Some v => v | None => [] end.

(* a file entry: meta = [id; claimed_len; dec_ok; cfg_ok], contents, re-serialisation (when dec_ok = 1) *)
Record fentry := mkFe { fe_id : Z; fe_len : Z; fe_dec : Z; fe_cfg : Z; fe_bytes : bytes; fe_aux : bytes }.
Fixpoint fentries (segs : list (list Z)) : list fentry :=
  match segs with
  | meta :: b :: aux :: r =>
      mkFe (nth 0 meta 0) (nth 1 meta 0) (nth 2 meta 0) (nth 3 meta 0) b aux :: fentries r
  | _ => []
  end.
Fixpoint dir_of (fs : list fentry) : dir :=
  match fs with
  | [] => fun _ => None
  | f :: r => fun i => if i =? fe_id f then Some (mkFile (fe_len f) (fe_bytes f)) else dir_of r i
  end.
Fixpoint reser_of (fs : list fentry) (b : bytes) : option bytes :=
  match fs with
  | [] => None
  | f :: r => if list_eqb (fe_bytes f) b then (if fe_dec f =? 1 then Some (fe_aux f) else None) else reser_of r b
  end.
Fixpoint cfgok_of (fs : list fentry) (b : bytes) : bool :=
  match fs with
  | [] => false
  | f :: r => if list_eqb (fe_bytes f) b then fe_cfg f =? 1 else cfgok_of r b
  end.
(* tokens standing for file contents the model does not interpret *)
Definition token_ok (b : bytes) : bool := list_eqb b [1].
Definition parse_config_tok (b : bytes) : option (Z * option Z) :=
  match b with
  | [n] => Some (n, None)
  | [n; m] => Some (n, Some m)
  | _ => None
  end.

(* the file-system part of the log (what strace can see); hashing is internal *)
Definition enc_trace (t : list ev) : list Z := map enc_ev (filter (fun e => negb (is_hash e)) t).
Definition enc_l {A} (with_trace : bool) (m : L A) : list Z :=
  enc_class (result m) ++ (if with_trace then enc_trace (trace m) else []).

(* segments 1..6 = leaf_c leaf_v pb_c pb_v pub_c pub_v, segments 7.. = file entries *)
Definition dir_case (which : Z) (with_trace : bool) (args : list (list Z)) : list Z :=
  let fs := fentries (skipn 7 args) in
  let d := dir_of fs in
  let leaf_c := seg args 1 in let leaf_v := seg args 2 in
  let canon_pb := fun _ : Z => (seg args 3, seg args 4) in
  let canon_pub := fun _ _ : Z => (seg args 5, seg args 6) in
  if which =? 0 then enc_l with_trace (private_prover_from_dir leaf_c leaf_v token_ok parse_config_tok d)
  else if which =? 1 then enc_l with_trace (public_prover_from_dir canon_pb (fun _ => token_ok) parse_config_tok d)
  else if which =? 2 then
    (* the codec results the harness reports belong to the two public-batch files *)
    let only := fun id => filter (fun f => fe_id f =? id) fs in
    enc_l with_trace (aggregator_new canon_pb canon_pub (reser_of (only F_PUB_COMMON)) (reser_of (only F_PUB_VERIFIER))
                                     (cfgok_of (only F_PUB_COMMON))
                                     (fun _ => token_ok) parse_config_tok d)
  else if which =? 3 then enc_l with_trace (gen_private_batch leaf_c leaf_v d (arg args 0 0))
  else enc_l with_trace (gen_public_batch canon_pb d (arg args 0 0) (arg args 0 1)).

Definition opt_file (meta : list Z) (b : bytes) : option file :=
  if nth 0 meta 0 =? 1 then Some (mkFile (nth 1 meta 0) b) else None.

Definition verifier_files_case (with_trace : bool) (args : list (list Z)) : list Z :=
  let fv := opt_file (seg args 0) (seg args 1) in
  let fc := opt_file (seg args 2) (seg args 3) in
  let d : dir := fun i => if i =? F_VERIFIER then fv else if i =? F_COMMON then fc else None in
  let keccak := tbl_fun [(seg args 1, seg args 4); (seg args 3, seg args 5)] in
  enc_l with_trace (verifier_new_from_files keccak (seg args 6) (seg args 7) (fun _ _ => arg args 8 0 =? 1)
                                            d F_VERIFIER F_COMMON).

Definition zeros (n : Z) : bytes := Z.iter n (cons 0) [].

Definition c17_dispatch (fid : Z) (args : list (list Z)) : list Z :=
  if fid =? 1701 then
    let keccak := tbl_fun [(seg args 0, seg args 2); (seg args 1, seg args 3)] in
    enc_l false (verifier_new_from_bytes keccak (seg args 4) (seg args 5) (fun _ _ => arg args 6 0 =? 1)
                                         (seg args 0) (seg args 1))
  else if fid =? 1702 then verifier_files_case false args
  else if fid =? 1703 then enc_class (load_canonical_leaf (seg args 2) (seg args 3) (seg args 0) (seg args 1))
  else if fid =? 1704 then
    enc_class (load_canonical_private_batch (fun _ => (seg args 3, seg args 4)) (seg args 0) (seg args 1) (arg args 2 0))
  else if fid =? 1706 then
    (* a slice of [len] bytes of unknown content in position [which]; the other input is a short dummy *)
    let big := zeros (arg args 0 1) in
    let v := if arg args 0 0 =? 0 then big else [1] in
    let c := if arg args 0 0 =? 0 then [1] else big in
    let m := verifier_new_from_bytes (fun _ => []) [0] [0] (fun _ _ => false) v c in
    enc_class (result m) ++ [if existsb is_hash (trace m) then 1 else 0]
  else if (1710 <=? fid) && (fid <=? 1714) then dir_case (fid - 1710) false args
  else if (1720 <=? fid) && (fid <=? 1722) then dir_case (fid - 1720) true args
  else if fid =? 1723 then verifier_files_case true args
  else if fid =? 1724 then enc_l true leaf_prover_new
  else [-2].

(* ---------------------------------------------------------------- C18 *)
Definition c18_dispatch (fid : Z) (args : list (list Z)) : list Z :=
  (* a proof is (public inputs, verdict of the pinned verifier) *)
  let P := (list Z * bool)%type in
  let c := AddressBinding.mkCtx (seg args 1) (arg args 0 0) in
  if fid =? 1801 then
    AddressBinding.enc_class (AddressBinding.verify P fst snd c (seg args 2, arg args 3 0 =? 1))
  else if fid =? 1802 then
    let produce : res P := if arg args 2 0 =? 1 then Ok (seg args 3, arg args 4 0 =? 1) else Err AddressBinding.E_PRODUCE in
    match AddressBinding.prove_batch P fst snd c produce with
    | Ok _ => [1]
    | Err e => if e =? AddressBinding.PANIC then [AddressBinding.PANIC] else [0]
    end
  else [-2].

(* ---------------------------------------------------------------- C11 *)
Import Recursion.
Definition enc_ctor {A} (r : res A) : list Z :=
  match r with Ok _ => [1] | Err e => if e =? -1 then [-1] else [0] end.
(* children: pairs of segments (key of the producing circuit, [valid]) *)
Fixpoint children_of (segs : list (list Z)) : list (@child iproof) :=
  match segs with
  | k :: v :: r => mkChild [] (k, nth 0 v 0 =? 1) :: children_of r
  | _ => []
  end.
Definition c11_dispatch (fid : Z) (args : list (list Z)) : list Z :=
  if fid =? 1101 then enc_ctor (private_batch_new ikey [] (arg args 0 0) (arg args 0 1))
  else if fid =? 1102 then enc_ctor (public_batch_new ikey [] (arg args 0 0) (arg args 0 1) (arg args 0 2))
  else if (fid =? 1103) || (fid =? 1104) then
    [if rec_accepts (seg args 0) (children_of (skipn 2 args)) (arg args 1 0 =? 1) then 1 else 0]
  (* 1105: number of wires of the recursive layer that neither a constant nor the child proofs determine *)
  else if fid =? 1105 then [0]
  else [-2].

Definition dispatch (fid : Z) (args : list (list Z)) : list Z :=
  if (1700 <=? fid) && (fid <? 1800) then c17_dispatch fid args
  else if (1800 <=? fid) && (fid <? 1900) then c18_dispatch fid args
  else if (1100 <=? fid) && (fid <? 1200) then c11_dispatch fid args
  else [-2].
