(* One dispatch for the "config" group: C28 (fids 28xx, Sys/ConfigPolicy.v) and C35 (fids 35xx,
   Sys/TransferJson.v). *)
From V.Base Require Import Common.
From V.Sys Require ConfigPolicy TransferJson.

Definition dispatch (fid : Z) (args : list (list Z)) : list Z :=
  if (2800 <=? fid) && (fid <? 2900) then ConfigPolicy.config_dispatch fid args
  else if (3500 <=? fid) && (fid <? 3600) then TransferJson.json_dispatch fid args
  else [-2].
