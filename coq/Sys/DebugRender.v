(* C32 - Debug rendering of the secret-bearing types (executable model, no proofs).

   Transcribed from
     core::fmt            DebugStruct / DebugList (DebugInner) / PadAdapter, `{:?}` and `{:#?}`
     wormhole/inputs/src/lib.rs                      BytesDigest (manual Debug), PublicCircuitInputs (derived)
     wormhole/circuit/src/inputs.rs                  CircuitInputs, PrivateCircuitInputs
     wormhole/circuit/src/nullifier.rs               Nullifier
     wormhole/circuit/src/unspendable_account.rs     UnspendableAccount
     wormhole/circuit/src/zk_merkle_proof.rs         ZkLeafData, ZkMerkleProofData
     wormhole/circuit/src/block_header/header.rs     HeaderInputs
     wormhole/circuit/src/block_header/mod.rs        BlockHeader (derived)
     wormhole/prover/src/lib.rs                      WormholeProver
     qp-plonky2-field goldilocks_field.rs            Debug for GoldilocksField = Debug of to_canonical_u64()

   Every record below holds ALL fields of the Rust struct, the private ones included; `debug_<type>` is
   written line by line after the Rust `fmt` body, so the private fields are in scope and simply not used.
   Characters are their byte codes (all output is ASCII); a felt is its raw inner u64 (possibly >= p).
   The tie to the implementation is the exact string equality checked by harness/src/bin/redact.rs. *)
From Coq Require Import String Ascii.
From V.Base Require Import Common.
From V.Generated Require Import Constants.
Local Open Scope Z_scope.

(* ---------------------------------------------------------------- characters *)
(* Text literals: `lit "abc"` is the list of byte codes [97; 98; 99], computed when the definition is parsed,
   so that neither Coq's `string` nor `str` is reachable from the extracted dispatch (the shared OCaml driver
   opens the extracted module, which must not define a type named string). *)
Fixpoint str (s : string) : list Z :=
  match s with
  | EmptyString => []
  | String a r => Z.of_N (N_of_ascii a) :: str r
  end.
Notation "'lit' s" := (ltac:(let v := eval vm_compute in (str s%string) in exact v)) (at level 0, s at level 0, only parsing).

Definition NL : Z := 10.
Definition SP : Z := 32.

(* u8/u32/u64/usize Display (= Debug without the x? flags): decimal, no sign, no padding.
   Total on Z (fuel = number of bits, always enough); negative inputs do not occur. *)
Fixpoint dec_go (fuel : nat) (n : Z) (acc : list Z) : list Z :=
  match fuel with
  | O => acc
  | S f =>
    let acc' := (48 + n mod 10) :: acc in
    if n / 10 =? 0 then acc' else dec_go f (n / 10) acc'
  end.
Definition dec (n : Z) : list Z := dec_go (S (Z.to_nat (Z.log2 n))) n [].

(* `{:02x}` of a byte *)
Definition hexdigit (d : Z) : Z := if d <? 10 then 48 + d else 87 + d.
Definition hex2 (b : Z) : list Z := [hexdigit (b / 16); hexdigit (b mod 16)].

(* ---------------------------------------------------------------- documents and the two renderers *)
Inductive doc : Type :=
| DAtom (s : list Z)                                  (* Display-like leaf: same text in both modes, no newline *)
| DStruct (name : list Z) (fields : list (list Z * doc))  (* f.debug_struct(name).field(..)...finish() *)
| DList (items : list doc).                           (* f.debug_list().entries(..).finish(): slices, arrays, Vec *)

(* `{:?}`: DebugStruct::field writes " { " / ", " then `name: value`; finish writes " }" if any field.
   DebugInner::entry writes ", " between entries; debug_list writes "[" .. "]". *)
Fixpoint render_compact (d : doc) : list Z :=
  match d with
  | DAtom s => s
  | DStruct name fields =>
    name ++
    (fix go (has_fields : bool) (fs : list (list Z * doc)) : list Z :=
       match fs with
       | [] => if has_fields then lit " }" else []
       | (n, v) :: r =>
         (if has_fields then lit ", " else lit " { ") ++ n ++ lit ": " ++ render_compact v ++ go true r
       end) false fields
  | DList items =>
    lit "[" ++
    (fix go (has_fields : bool) (xs : list doc) : list Z :=
       match xs with
       | [] => []
       | x :: r => (if has_fields then lit ", " else []) ++ render_compact x ++ go true r
       end) false items ++
    lit "]"
  end.

(* PadAdapter: four spaces before every character that starts a line *)
Fixpoint pad_adapter (on_newline : bool) (s : list Z) : list Z :=
  match s with
  | [] => []
  | c :: r => (if on_newline then [SP; SP; SP; SP] else []) ++ c :: pad_adapter (c =? NL) r
  end.

(* `{:#?}`: DebugStruct::field writes " {\n" before the first field, then through a fresh PadAdapter
   `name: value,\n`; finish writes "}".  DebugInner::entry writes "\n" before the first entry, then through a
   fresh PadAdapter `value,\n`. *)
Fixpoint render_pretty (d : doc) : list Z :=
  match d with
  | DAtom s => s
  | DStruct name fields =>
    name ++
    (fix go (has_fields : bool) (fs : list (list Z * doc)) : list Z :=
       match fs with
       | [] => if has_fields then lit "}" else []
       | (n, v) :: r =>
         (if has_fields then [] else lit " {" ++ [NL]) ++
         pad_adapter true (n ++ lit ": " ++ render_pretty v ++ lit "," ++ [NL]) ++ go true r
       end) false fields
  | DList items =>
    lit "[" ++
    (fix go (has_fields : bool) (xs : list doc) : list Z :=
       match xs with
       | [] => []
       | x :: r =>
         (if has_fields then [] else [NL]) ++ pad_adapter true (render_pretty x ++ lit "," ++ [NL]) ++ go true r
       end) false items ++
    lit "]"
  end.

(* mode 0 = `{:?}`, anything else = `{:#?}` *)
Definition render (mode : Z) (d : doc) : list Z :=
  if mode =? 0 then render_compact d else render_pretty d.

(* ---------------------------------------------------------------- leaves *)
Definition debug_uint (n : Z) : doc := DAtom (dec n).
Definition debug_bool (b : bool) : doc := DAtom (if b then lit "true" else lit "false").
(* `&"..."` : <str as Debug> prints the quotes; the literals used here need no escaping *)
Definition debug_str_literal (s : list Z) : doc := DAtom (lit """" ++ s ++ lit """").
Definition REDACTED : doc := debug_str_literal (lit "[REDACTED]").

(* GoldilocksField: Debug::fmt(&self.to_canonical_u64(), f) *)
Definition to_canonical_u64 (x : Z) : Z := if x >=? FIELD_ORDER then x - FIELD_ORDER else x.
Definition debug_felt (x : Z) : doc := debug_uint (to_canonical_u64 x).
(* Digest = [F; 4], and any other felt array *)
Definition debug_felts (l : list Z) : doc := DList (map debug_felt l).
(* [u8; N] *)
Definition debug_byte_array (l : list Z) : doc := DList (map debug_uint l).
(* BytesDigest: write!(f, "BytesDigest(0x")?; for byte { write!(f, "{:02x}", byte)? } write!(f, ")") *)
Definition debug_bytes_digest (b : list Z) : doc :=
  DAtom (lit "BytesDigest(0x" ++ flat_map hex2 b ++ lit ")").

(* ---------------------------------------------------------------- the rendered types *)

(* wormhole/inputs/src/lib.rs: #[derive(Debug)] pub struct PublicCircuitInputs *)
Record PublicCircuitInputs := mkPublicCircuitInputs {
  pub_asset_id : Z;
  pub_output_amount_1 : Z;
  pub_output_amount_2 : Z;
  pub_volume_fee_bps : Z;
  pub_nullifier : list Z;
  pub_exit_account_1 : list Z;
  pub_exit_account_2 : list Z;
  pub_block_hash : list Z;
  pub_block_number : Z }.

Definition debug_PublicCircuitInputs (s : PublicCircuitInputs) : doc :=
  DStruct (lit "PublicCircuitInputs")
    [ (lit "asset_id", debug_uint (pub_asset_id s));
      (lit "output_amount_1", debug_uint (pub_output_amount_1 s));
      (lit "output_amount_2", debug_uint (pub_output_amount_2 s));
      (lit "volume_fee_bps", debug_uint (pub_volume_fee_bps s));
      (lit "nullifier", debug_bytes_digest (pub_nullifier s));
      (lit "exit_account_1", debug_bytes_digest (pub_exit_account_1 s));
      (lit "exit_account_2", debug_bytes_digest (pub_exit_account_2 s));
      (lit "block_hash", debug_bytes_digest (pub_block_hash s));
      (lit "block_number", debug_uint (pub_block_number s)) ].

(* wormhole/circuit/src/inputs.rs: pub struct PrivateCircuitInputs *)
Record PrivateCircuitInputs := mkPrivateCircuitInputs {
  pi_secret : list Z;                          (* Secret([u8; 32]) *)
  pi_transfer_count : Z;                       (* u64 *)
  pi_unspendable_account : list Z;             (* BytesDigest: the deposit account *)
  pi_parent_hash : list Z;
  pi_state_root : list Z;
  pi_extrinsics_root : list Z;
  pi_digest : list Z;                          (* [u8; DIGEST_LOGS_SIZE] *)
  pi_input_amount : Z;                         (* u32 *)
  pi_zk_tree_root : list Z;                    (* [u8; 32] *)
  pi_zk_merkle_siblings : list (list (list Z));(* Vec<[[u8; 32]; 3]> *)
  pi_zk_merkle_positions : list Z }.           (* Vec<u8> *)

Definition debug_PrivateCircuitInputs (s : PrivateCircuitInputs) : doc :=
  DStruct (lit "PrivateCircuitInputs")
    [ (lit "secret", REDACTED);
      (lit "transfer_count", REDACTED);
      (lit "unspendable_account", REDACTED);
      (lit "parent_hash", debug_bytes_digest (pi_parent_hash s));
      (lit "state_root", debug_bytes_digest (pi_state_root s));
      (lit "extrinsics_root", debug_bytes_digest (pi_extrinsics_root s));
      (lit "digest", REDACTED);
      (lit "input_amount", REDACTED);
      (lit "zk_tree_root", debug_byte_array (pi_zk_tree_root s));
      (lit "zk_merkle_siblings", REDACTED);
      (lit "zk_merkle_positions", REDACTED) ].

(* wormhole/circuit/src/inputs.rs: pub struct CircuitInputs *)
Record CircuitInputs := mkCircuitInputs {
  ci_public : PublicCircuitInputs;
  ci_private : PrivateCircuitInputs }.

Definition debug_CircuitInputs (s : CircuitInputs) : doc :=
  DStruct (lit "CircuitInputs")
    [ (lit "public", debug_PublicCircuitInputs (ci_public s));
      (lit "private", debug_PrivateCircuitInputs (ci_private s)) ].

(* wormhole/circuit/src/nullifier.rs: pub struct Nullifier *)
Record Nullifier := mkNullifier {
  nf_hash : list Z;                            (* Digest *)
  nf_secret : list Z;                          (* Secret([u8; 32]) *)
  nf_transfer_count : list Z }.                (* [F; 2] *)

Definition debug_Nullifier (s : Nullifier) : doc :=
  DStruct (lit "Nullifier")
    [ (lit "hash", debug_felts (nf_hash s));
      (lit "secret", REDACTED);
      (lit "transfer_count", REDACTED) ].

(* wormhole/circuit/src/unspendable_account.rs: pub struct UnspendableAccount *)
Record UnspendableAccount := mkUnspendableAccount {
  ua_account_id : list Z;                      (* Digest: the deposit account *)
  ua_secret : list Z }.

Definition debug_UnspendableAccount (s : UnspendableAccount) : doc :=
  DStruct (lit "UnspendableAccount")
    [ (lit "account_id", REDACTED);
      (lit "secret", REDACTED) ].

(* wormhole/circuit/src/zk_merkle_proof.rs: pub struct ZkLeafData *)
Record ZkLeafData := mkZkLeafData {
  lf_to_account : list Z;                      (* [F; 4]: the deposit account *)
  lf_transfer_count : list Z;                  (* [F; 2] *)
  lf_asset_id : Z;
  lf_input_amount : Z;
  lf_output_amount_1 : Z;
  lf_output_amount_2 : Z;
  lf_volume_fee_bps : Z }.

Definition debug_ZkLeafData (s : ZkLeafData) : doc :=
  DStruct (lit "ZkLeafData")
    [ (lit "to_account", REDACTED);
      (lit "transfer_count", REDACTED);
      (lit "asset_id", debug_felt (lf_asset_id s));
      (lit "input_amount", REDACTED);
      (lit "output_amount_1", debug_felt (lf_output_amount_1 s));
      (lit "output_amount_2", debug_felt (lf_output_amount_2 s));
      (lit "volume_fee_bps", debug_felt (lf_volume_fee_bps s)) ].

(* wormhole/circuit/src/zk_merkle_proof.rs: pub struct ZkMerkleProofData *)
Record ZkMerkleProofData := mkZkMerkleProofData {
  mp_root_hash : list Z;                       (* [F; 4] *)
  mp_depth : Z;                                (* usize *)
  mp_siblings : list (list (list Z));          (* Vec<[[F; 4]; 3]> *)
  mp_positions : list Z;                       (* Vec<u8> *)
  mp_leaf : ZkLeafData;
  mp_is_not_dummy : bool }.

Definition debug_ZkMerkleProofData (s : ZkMerkleProofData) : doc :=
  DStruct (lit "ZkMerkleProofData")
    [ (lit "root_hash", debug_felts (mp_root_hash s));
      (lit "depth", debug_uint (mp_depth s));
      (lit "siblings", REDACTED);
      (lit "positions", REDACTED);
      (lit "leaf", debug_ZkLeafData (mp_leaf s));
      (lit "is_not_dummy", debug_bool (mp_is_not_dummy s)) ].

(* wormhole/circuit/src/block_header/header.rs: pub struct HeaderInputs *)
Record HeaderInputs := mkHeaderInputs {
  hi_parent_hash : list Z;
  hi_block_number : Z;
  hi_state_root : list Z;
  hi_extrinsics_root : list Z;
  hi_zk_tree_root : list Z;
  hi_digest : list Z }.                        (* [F; DIGEST_LOGS_FELTS]: the digest logs *)

Definition debug_HeaderInputs (s : HeaderInputs) : doc :=
  DStruct (lit "HeaderInputs")
    [ (lit "parent_hash", debug_felts (hi_parent_hash s));
      (lit "block_number", debug_felt (hi_block_number s));
      (lit "state_root", debug_felts (hi_state_root s));
      (lit "extrinsics_root", debug_felts (hi_extrinsics_root s));
      (lit "zk_tree_root", debug_felts (hi_zk_tree_root s));
      (lit "digest", REDACTED) ].

(* wormhole/circuit/src/block_header/mod.rs: #[derive(Debug)] pub struct BlockHeader *)
Record BlockHeader := mkBlockHeader {
  bh_block_hash : list Z;
  bh_header : HeaderInputs }.

Definition debug_BlockHeader (s : BlockHeader) : doc :=
  DStruct (lit "BlockHeader")
    [ (lit "block_hash", debug_felts (bh_block_hash s));
      (lit "header", debug_HeaderInputs (bh_header s)) ].

(* wormhole/prover/src/lib.rs: pub struct WormholeProver.  circuit_data and the witness are opaque lists here;
   after commit the witness holds every private value and `targets` is None. *)
Record WormholeProver := mkWormholeProver {
  wp_circuit_data : list Z;
  wp_partial_witness : list Z;
  wp_targets : option (list Z) }.

Definition option_is_none {A} (o : option A) : bool := match o with None => true | Some _ => false end.

Definition debug_WormholeProver (s : WormholeProver) : doc :=
  DStruct (lit "WormholeProver")
    [ (lit "circuit_data", debug_str_literal (lit "[ProverCircuitData]"));
      (lit "partial_witness", REDACTED);
      (lit "committed", debug_bool (option_is_none (wp_targets s))) ].

(* ---------------------------------------------------------------- dispatch for the correspondence check *)
(* Segment layouts (harness/src/bin/redact.rs prints exactly these). seg 0 = [mode].
   3201 PublicCircuitInputs   1:[asset out1 out2 fee block_number] 2:nullifier 3:exit1 4:exit2 5:block_hash
   3202 PrivateCircuitInputs  1:secret 2:[transfer_count input_amount] 3:unspendable 4:parent 5:state 6:extr
                              7:digest 8:zk_tree_root 9:siblings (flat bytes) 10:positions
   3203 CircuitInputs         1..5 as 3201, 6..15 as 3202's 1..10
   3204 Nullifier             1:hash felts 2:secret bytes 3:transfer_count felts
   3205 UnspendableAccount    1:account_id felts 2:secret bytes
   3206 ZkLeafData            1:to_account felts 2:transfer_count felts 3:[asset input out1 out2 fee] felts
   3207 ZkMerkleProofData     1:root felts 2:[depth is_not_dummy] 3:siblings (flat felts) 4:positions 5..7 as 3206's 1..3
   3208 HeaderInputs          1:parent felts 2:[block_number] 3:state 4:extr 5:zk_tree_root 6:digest felts
   3209 BlockHeader           1:block_hash felts 2..7 as 3208's 1..6
   3210 WormholeProver        1:[targets_is_some] 2:witness values
   Result: the bytes of the rendering; [-3] when a segment has not the shape of the Rust type; [-2] unknown fid. *)
Definition seg (args : list (list Z)) (i : nat) : list Z := nth i args [].
Definition arg (args : list (list Z)) (i j : nat) : Z := nth j (seg args i) 0.

Definition has_len (l : list Z) (n : Z) : bool := zlen l =? n.
Definition is_digest_bytes (l : list Z) : bool := has_len l DIGEST_BYTES_LEN.
Definition is_digest_felts (l : list Z) : bool := has_len l POSEIDON2_OUTPUT.

Definition level_bytes : Z := MERKLE_SIBLINGS_PER_LEVEL * DIGEST_BYTES_LEN.
Definition level_felts : Z := MERKLE_SIBLINGS_PER_LEVEL * POSEIDON2_OUTPUT.
(* flat list -> levels of SIBLINGS_PER_LEVEL siblings of [width] entries *)
Definition unflatten_siblings (width : Z) (flat : list Z) : list (list (list Z)) :=
  map (chunks (Z.to_nat width)) (chunks (Z.to_nat (MERKLE_SIBLINGS_PER_LEVEL * width)) flat).

Definition get_public (args : list (list Z)) (o : nat) : option PublicCircuitInputs :=
  if has_len (seg args o) 5 && is_digest_bytes (seg args (o + 1)) && is_digest_bytes (seg args (o + 2))
     && is_digest_bytes (seg args (o + 3)) && is_digest_bytes (seg args (o + 4))
  then Some (mkPublicCircuitInputs (arg args o 0) (arg args o 1) (arg args o 2) (arg args o 3)
               (seg args (o + 1)) (seg args (o + 2)) (seg args (o + 3)) (seg args (o + 4)) (arg args o 4))
  else None.

Definition get_private (args : list (list Z)) (o : nat) : option PrivateCircuitInputs :=
  if is_digest_bytes (seg args o) && has_len (seg args (o + 1)) 2 && is_digest_bytes (seg args (o + 2))
     && is_digest_bytes (seg args (o + 3)) && is_digest_bytes (seg args (o + 4))
     && is_digest_bytes (seg args (o + 5)) && has_len (seg args (o + 6)) DIGEST_LOGS_SIZE
     && is_digest_bytes (seg args (o + 7)) && (zlen (seg args (o + 8)) mod level_bytes =? 0)
  then Some (mkPrivateCircuitInputs (seg args o) (arg args (o + 1) 0) (seg args (o + 2)) (seg args (o + 3))
               (seg args (o + 4)) (seg args (o + 5)) (seg args (o + 6)) (arg args (o + 1) 1) (seg args (o + 7))
               (unflatten_siblings DIGEST_BYTES_LEN (seg args (o + 8))) (seg args (o + 9)))
  else None.

Definition get_leaf (args : list (list Z)) (o : nat) : option ZkLeafData :=
  if is_digest_felts (seg args o) && has_len (seg args (o + 1)) FELTS_PER_U64 && has_len (seg args (o + 2)) 5
  then Some (mkZkLeafData (seg args o) (seg args (o + 1)) (arg args (o + 2) 0) (arg args (o + 2) 1)
               (arg args (o + 2) 2) (arg args (o + 2) 3) (arg args (o + 2) 4))
  else None.

Definition get_header (args : list (list Z)) (o : nat) : option HeaderInputs :=
  if is_digest_felts (seg args o) && has_len (seg args (o + 1)) 1 && is_digest_felts (seg args (o + 2))
     && is_digest_felts (seg args (o + 3)) && is_digest_felts (seg args (o + 4))
     && has_len (seg args (o + 5)) DIGEST_LOGS_FELTS
  then Some (mkHeaderInputs (seg args o) (arg args (o + 1) 0) (seg args (o + 2)) (seg args (o + 3))
               (seg args (o + 4)) (seg args (o + 5)))
  else None.

Definition MALFORMED : list Z := [-3].
Definition out_of {A} (mode : Z) (dbg : A -> doc) (o : option A) : list Z :=
  match o with Some s => render mode (dbg s) | None => MALFORMED end.

Definition dispatch_debug (fid : Z) (args : list (list Z)) : list Z :=
  let mode := arg args 0 0 in
  if fid =? 3201 then out_of mode debug_PublicCircuitInputs (get_public args 1)
  else if fid =? 3202 then out_of mode debug_PrivateCircuitInputs (get_private args 1)
  else if fid =? 3203 then
    out_of mode debug_CircuitInputs
      (match get_public args 1, get_private args 6 with
       | Some a, Some b => Some (mkCircuitInputs a b)
       | _, _ => None
       end)
  else if fid =? 3204 then
    out_of mode debug_Nullifier
      (if is_digest_felts (seg args 1) && is_digest_bytes (seg args 2) && has_len (seg args 3) FELTS_PER_U64
       then Some (mkNullifier (seg args 1) (seg args 2) (seg args 3)) else None)
  else if fid =? 3205 then
    out_of mode debug_UnspendableAccount
      (if is_digest_felts (seg args 1) && is_digest_bytes (seg args 2)
       then Some (mkUnspendableAccount (seg args 1) (seg args 2)) else None)
  else if fid =? 3206 then out_of mode debug_ZkLeafData (get_leaf args 1)
  else if fid =? 3207 then
    out_of mode debug_ZkMerkleProofData
      (match get_leaf args 5 with
       | Some lf =>
         if is_digest_felts (seg args 1) && has_len (seg args 2) 2 && (zlen (seg args 3) mod level_felts =? 0)
         then Some (mkZkMerkleProofData (seg args 1) (arg args 2 0) (unflatten_siblings POSEIDON2_OUTPUT (seg args 3))
                      (seg args 4) lf (negb (arg args 2 1 =? 0)))
         else None
       | None => None
       end)
  else if fid =? 3208 then out_of mode debug_HeaderInputs (get_header args 1)
  else if fid =? 3209 then
    out_of mode debug_BlockHeader
      (match get_header args 2 with
       | Some h => if is_digest_felts (seg args 1) then Some (mkBlockHeader (seg args 1) h) else None
       | None => None
       end)
  else if fid =? 3210 then
    out_of mode debug_WormholeProver
      (if has_len (seg args 1) 1
       then Some (mkWormholeProver [] (seg args 2) (if arg args 1 0 =? 0 then None else Some []))
       else None)
  else [-2].
