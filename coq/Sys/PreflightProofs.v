(* Proofs about the commit-preflight and template-validator models (C14, C16).

   Vocabulary of the statements (independent of the preflight functions):
     contrib k m / total k l   what leaf statement m (resp. the batch l) pays to exit account k after the circuit's dummy masking
     compat_spec l             order-independent reading of LeanPort.priv_compat (one asset over all slots; real slots share block
                               hash and fee; real nullifiers pairwise distinct; every account receives < 2^32 in total)
     pub_spec l                the same for LeanPort.pub_compat
   [priv_compat_iff] / [pub_compat_iff] show these ARE priv_compat / pub_compat; being order-independent they transfer along
   any permutation (the shuffle of commit). *)
From Coq Require Import Permutation.
From V.Base Require Import Common.
From V.Generated Require Import Constants.
From V.Circ Require Import PrivateBatch PublicBatch.
From V.Spec Require Import LeanPort.
From V.Sys Require Import Parsers ParsersProofs Preflight.
Ltac Zify.zify_post_hook ::= Z.div_mod_to_equations.

Local Open Scope Z_scope.

(* ------------------------------------------------------------------------------------------------ *)
(** * Digest equality, membership *)

Lemma list_eqb_refl a : list_eqb a a = true.
Proof. apply list_eqb_spec. reflexivity. Qed.
Lemma list_eqb_false a b : list_eqb a b = false <-> a <> b.
Proof.
  split.
  - intros H E. apply list_eqb_spec in E. congruence.
  - intro N. destruct (list_eqb a b) eqn:E; [|reflexivity]. apply list_eqb_spec in E. contradiction.
Qed.
Lemma list_eqb_sym a b : list_eqb a b = list_eqb b a.
Proof.
  destruct (list_eqb a b) eqn:E.
  - apply list_eqb_spec in E. subst. symmetry. apply list_eqb_refl.
  - apply list_eqb_false in E. symmetry. apply list_eqb_false. congruence.
Qed.
Lemma dmem_In k s : dmem k s = true <-> In k s.
Proof.
  unfold dmem. rewrite existsb_exists. split.
  - intros (x & I & E). apply list_eqb_spec in E. subst. exact I.
  - intro I. exists k. split; [exact I|apply list_eqb_refl].
Qed.
Lemma dmem_false k s : dmem k s = false <-> ~ In k s.
Proof.
  split.
  - intros H I. apply dmem_In in I. congruence.
  - intro N. destruct (dmem k s) eqn:E; [|reflexivity]. apply dmem_In in E. contradiction.
Qed.

Lemma distinct_digests_NoDup l : distinct_digests l = true <-> NoDup l.
Proof.
  induction l as [|d r IH]; cbn [distinct_digests].
  - split; [constructor|reflexivity].
  - rewrite andb_true_iff, negb_true_iff, dmem_false, IH. split.
    + intros [N D]. constructor; assumption.
    + intro D. inversion D; subst. split; assumption.
Qed.

(* ------------------------------------------------------------------------------------------------ *)
(** * Grouped exit sums *)

Lemma matchSum_notin k xs : ~ In k (map fst xs) -> matchSum k xs = 0.
Proof.
  induction xs as [|[k' a] r IH]; cbn [matchSum map fst In]; intro N; [reflexivity|].
  destruct (list_eqb k' k) eqn:E.
  - apply list_eqb_spec in E. exfalso. apply N. left. exact E.
  - rewrite IH; [lia|]. intro I. apply N. right. exact I.
Qed.

Lemma two32_pos : 0 < two32.
Proof. unfold two32. lia. Qed.

Lemma groupAux_ok seen xs :
  forallb (fun s => fst s <? two32) (groupAux seen xs) = true <->
  (forall k, dmem k seen = false -> In k (map fst xs) -> matchSum k xs < two32).
Proof.
  revert seen. induction xs as [|[k a] r IH]; intro seen; cbn [groupAux forallb map fst In matchSum].
  - split; [intros _ k _ []|reflexivity].
  - rewrite andb_true_iff, IH. split.
    + intros [Hd Hr] k' NS I.
      destruct (list_eqb k k') eqn:E.
      * apply list_eqb_spec in E. subst k'. rewrite NS in Hd. cbn [fst] in Hd. apply Z.ltb_lt in Hd. exact Hd.
      * assert (dmem k' (k :: seen) = false) as NS'.
        { unfold dmem in *. cbn [existsb]. rewrite NS. rewrite list_eqb_sym, E. reflexivity. }
        destruct I as [I|I]; [apply list_eqb_false in E; congruence|].
        specialize (Hr k' NS' I). lia.
    + intro H. split.
      * destruct (dmem k seen) eqn:S; cbn [fst]; apply Z.ltb_lt; [apply two32_pos|].
        specialize (H k S (or_introl eq_refl)). rewrite list_eqb_refl in H. exact H.
      * intros k' NS' I.
        unfold dmem in NS'. cbn [existsb] in NS'. apply orb_false_iff in NS'. destruct NS' as [NE NS].
        specialize (H k' NS (or_intror I)). rewrite list_eqb_sym, NE in H. lia.
Qed.

Lemma groupExits_ok xs :
  forallb (fun s => fst s <? two32) (groupExits xs) = true <-> (forall k, matchSum k xs < two32).
Proof.
  unfold groupExits. rewrite groupAux_ok. split.
  - intros H k. destruct (dmem k (map fst xs)) eqn:I.
    + apply dmem_In in I. apply H; [reflexivity|exact I].
    + apply dmem_false in I. rewrite matchSum_notin by exact I. apply two32_pos.
  - intros H k _ _. apply H.
Qed.

(* what statement m pays to account k after masking; the total over a batch *)
Definition contrib (k : list Z) (m : list Z) : Z :=
  if is_dummy_pb m then 0
  else (if list_eqb (lf_exit1 m) k then lf_out1 m else 0) + (if list_eqb (lf_exit2 m) k then lf_out2 m else 0).
Fixpoint total (k : list Z) (l : list (list Z)) : Z :=
  match l with [] => 0 | m :: r => contrib k m + total k r end.

Lemma matchSum_masked k l : matchSum k (maskedChildPairs l) = total k l.
Proof.
  induction l as [|m r IH]; cbn [maskedChildPairs matchSum total]; [reflexivity|].
  rewrite IH. unfold contrib. destruct (is_dummy_pb m); [destruct (list_eqb zero4 k)|]; lia.
Qed.

Lemma matchSum_app k a b : matchSum k (a ++ b) = matchSum k a + matchSum k b.
Proof. induction a as [|[k' v] r IH]; cbn [app matchSum]; [reflexivity|]. rewrite IH. lia. Qed.

Lemma matchSum_real_pairs k l : matchSum k (real_pairs l) = total k l.
Proof.
  induction l as [|m r IH]; cbn [real_pairs flat_map total]; [reflexivity|].
  rewrite matchSum_app. fold (real_pairs r). rewrite IH. unfold contrib.
  destruct (is_dummy_pb m); cbn [matchSum]; lia.
Qed.

Lemma total_app k a b : total k (a ++ b) = total k a + total k b.
Proof. induction a as [|m r IH]; cbn [app total]; [reflexivity|]. rewrite IH. lia. Qed.
Lemma total_repeat_dummy k t j : is_dummy_pb t = true -> total k (repeat t j) = 0.
Proof. intro Dm. induction j as [|j IH]; cbn [repeat total]; [reflexivity|]. rewrite IH. unfold contrib. rewrite Dm. reflexivity. Qed.
Lemma total_perm k l l' : Permutation l l' -> total k l = total k l'.
Proof. induction 1; cbn [total]; lia. Qed.

(* the association-list map of the repaired preflight computes exactly these totals *)
Lemma acc_add_matchSum k k0 a acc :
  matchSum k (acc_add k0 a acc) = (if list_eqb k0 k then a else 0) + matchSum k acc.
Proof.
  induction acc as [|[k' s] r IH]; cbn [acc_add matchSum]; [lia|].
  destruct (list_eqb k' k0) eqn:E; cbn [matchSum].
  - apply list_eqb_spec in E. subst k'. destruct (list_eqb k0 k); lia.
  - rewrite IH. lia.
Qed.
Lemma acc_add_keys k0 a acc : NoDup (map fst acc) -> NoDup (map fst (acc_add k0 a acc)) /\
  (forall k, In k (map fst (acc_add k0 a acc)) <-> k = k0 \/ In k (map fst acc)).
Proof.
  induction acc as [|[k' s] r IH]; cbn [acc_add map fst]; intro ND.
  - split; [constructor; [intros []|constructor]|]. intro k. cbn [In]. intuition congruence.
  - inversion ND as [|x xs NI ND']; subst. destruct (IH ND') as [IH1 IH2].
    destruct (list_eqb k' k0) eqn:E; cbn [map fst].
    + apply list_eqb_spec in E. subst k'. split; [exact ND|]. intro k. cbn [In]. intuition congruence.
    + apply list_eqb_false in E. split.
      * constructor; [|exact IH1]. rewrite IH2. intros [H|H]; [congruence|contradiction].
      * intro k. cbn [In]. rewrite IH2. intuition congruence.
Qed.
Lemma fold_acc_add k pairs : forall acc,
  NoDup (map fst acc) ->
  let r := fold_left (fun acc ka => acc_add (fst ka) (snd ka) acc) pairs acc in
  NoDup (map fst r) /\ matchSum k r = matchSum k pairs + matchSum k acc.
Proof.
  induction pairs as [|[k0 a] ps IH]; intros acc ND; cbn [fold_left matchSum fst snd].
  - split; [exact ND|lia].
  - destruct (acc_add_keys k0 a acc ND) as [ND' _]. destruct (IH _ ND') as [R1 R2]. split; [exact R1|].
    cbv zeta in R2. rewrite R2, acc_add_matchSum. lia.
Qed.
Lemma nodup_keys_forall (acc : list (list Z * Z)) :
  NoDup (map fst acc) ->
  (forallb (fun ks => snd ks <? two32) acc = true <-> forall k, matchSum k acc < two32).
Proof.
  induction acc as [|[k s] r IH]; cbn [map fst forallb matchSum snd]; intro ND.
  - split; [intros _ k; apply two32_pos|reflexivity].
  - inversion ND as [|x xs NI ND']; subst. rewrite andb_true_iff, (IH ND'), Z.ltb_lt. split.
    + intros [Hs Hr] k'. destruct (list_eqb k k') eqn:E.
      * apply list_eqb_spec in E. subst k'. rewrite matchSum_notin by exact NI. lia.
      * specialize (Hr k'). lia.
    + intro H. split.
      * specialize (H k). rewrite list_eqb_refl, matchSum_notin in H by exact NI. lia.
      * intro k'. destruct (list_eqb k k') eqn:E.
        -- apply list_eqb_spec in E. subst k'. rewrite matchSum_notin by exact NI. apply two32_pos.
        -- specialize (H k'). rewrite E in H. lia.
Qed.

Lemma sum_check_ok ms : sum_check ms = Ok tt <-> forall k, total k ms < two32.
Proof.
  unfold sum_check, exit_sums.
  destruct (fold_acc_add (@nil Z) (real_pairs ms) [] (NoDup_nil _)) as [ND _]. cbv zeta in ND.
  assert (forall k, matchSum k (fold_left (fun acc ka => acc_add (fst ka) (snd ka) acc) (real_pairs ms) []) = total k ms) as T.
  { intro k. destruct (fold_acc_add k (real_pairs ms) [] (NoDup_nil _)) as [_ R]. cbv zeta in R.
    rewrite R, matchSum_real_pairs. cbn [matchSum]. lia. }
  split.
  - intro H. apply guard_ok_inv in H. pose proof (proj1 (nodup_keys_forall _ ND) H) as H'. intro k. rewrite <- T. apply H'.
  - intro H. assert (forallb (fun ks => snd ks <? two32) (fold_left (fun acc ka => acc_add (fst ka) (snd ka) acc) (real_pairs ms) []) = true) as B.
    { apply (nodup_keys_forall _ ND). intro k. rewrite T. apply H. }
    rewrite B. reflexivity.
Qed.
Lemma sum_check_err ms c : sum_check ms = Err c -> c = E_SUM /\ ~ (forall k, total k ms < two32).
Proof.
  intro H. split.
  - unfold sum_check, guard in H. destruct (forallb _ _); [discriminate|]. inversion H. reflexivity.
  - intro A. apply sum_check_ok in A. congruence.
Qed.

(* ------------------------------------------------------------------------------------------------ *)
(** * priv_compat, read order-independently *)

Definition compat_spec (l : list (list Z)) : Prop :=
  (exists A, forall m, In m l -> lf_asset m = A) /\
  (exists bh fee, forall m, In m l -> is_real_pb m = true -> lf_bh m = bh /\ lf_fee m = fee) /\
  NoDup (map lf_null (filter is_real_pb l)) /\
  (forall k, total k l < two32).

Lemma is_real_dummy m : is_real_pb m = true <-> is_dummy_pb m = false.
Proof. unfold is_real_pb. destruct (is_dummy_pb m); cbn [negb]; split; congruence. Qed.

Lemma priv_compat_iff l : priv_compat l = true <-> compat_spec l.
Proof.
  unfold priv_compat, compat_spec, ref_header.
  destruct (find is_real_pb l) as [rf|] eqn:Fd.
  - apply find_some in Fd. destruct Fd as [Irf Rrf].
    rewrite !andb_true_iff, groupExits_ok, distinct_digests_NoDup, !forallb_forall. split.
    + intros (((HA & HB) & HN) & HS). split; [|split; [|split]].
      * exists (lf_asset (nth 0 l [])). intros m I. apply Z.eqb_eq. apply HA. exact I.
      * exists (lf_bh rf), (lf_fee rf). intros m I R. specialize (HB m I). apply is_real_dummy in R. rewrite R in HB.
        cbn [orb] in HB. apply andb_true_iff in HB. destruct HB as [B1 B2]. apply list_eqb_spec in B1. apply Z.eqb_eq in B2. auto.
      * exact HN.
      * intro k. rewrite <- matchSum_masked. apply HS.
    + intros ((A & HA) & (bh & fee & HB) & HN & HS). split; [split; [split|]|].
      * intros m I. apply Z.eqb_eq. rewrite (HA m I). symmetry. apply HA.
        destruct l as [|x r]; [destruct I|]. left. reflexivity.
      * intros m I. destruct (is_dummy_pb m) eqn:Dm; [reflexivity|]. cbn [orb].
        destruct (HB m I (proj2 (is_real_dummy m) Dm)) as [E1 E2]. destruct (HB rf Irf Rrf) as [E3 E4].
        apply andb_true_iff. split; [apply list_eqb_spec|apply Z.eqb_eq]; congruence.
      * exact HN.
      * intro k. rewrite matchSum_masked. apply HS.
  - assert (forall m, In m l -> is_dummy_pb m = true) as AD.
    { intros m I. pose proof (find_none _ _ Fd m I) as N. unfold is_real_pb in N. destruct (is_dummy_pb m); [reflexivity|discriminate]. }
    rewrite !andb_true_iff, groupExits_ok, distinct_digests_NoDup, !forallb_forall. split.
    + intros (((HA & HB) & HN) & HS). split; [|split; [|split]].
      * exists (lf_asset (nth 0 l [])). intros m I. apply Z.eqb_eq. apply HA. exact I.
      * exists zero4, 0. intros m I R. apply is_real_dummy in R. rewrite (AD m I) in R. discriminate.
      * exact HN.
      * intro k. rewrite <- matchSum_masked. apply HS.
    + intros ((A & HA) & _ & HN & HS). split; [split; [split|]|].
      * intros m I. apply Z.eqb_eq. rewrite (HA m I). symmetry. apply HA.
        destruct l as [|x r]; [destruct I|]. left. reflexivity.
      * intros m I. rewrite (AD m I). reflexivity.
      * exact HN.
      * intro k. rewrite matchSum_masked. apply HS.
Qed.

Lemma filter_perm {A} (f : A -> bool) l l' : Permutation l l' -> Permutation (filter f l) (filter f l').
Proof.
  induction 1; cbn [filter].
  - constructor.
  - destruct (f x); [constructor|]; assumption.
  - destruct (f x), (f y); try constructor; try apply Permutation_refl. 
  - eapply Permutation_trans; eassumption.
Qed.

Lemma compat_spec_perm l l' : Permutation l l' -> compat_spec l -> compat_spec l'.
Proof.
  intros P ((A & HA) & (bh & fee & HB) & HN & HS).
  assert (forall m, In m l' -> In m l) as Back by (intros m I; eapply Permutation_in; [apply Permutation_sym; exact P|exact I]).
  split; [|split; [|split]].
  - exists A. intros m I. apply HA. apply Back. exact I.
  - exists bh, fee. intros m I. apply HB. apply Back. exact I.
  - eapply Permutation_NoDup; [|exact HN]. apply Permutation_map. apply filter_perm. exact P.
  - intro k. rewrite <- (total_perm k l l' P). apply HS.
Qed.

Lemma priv_compat_perm l l' : Permutation l l' -> priv_compat l = priv_compat l'.
Proof.
  intro P. destruct (priv_compat l) eqn:E1, (priv_compat l') eqn:E2; try reflexivity.
  - apply priv_compat_iff in E1. apply (compat_spec_perm _ _ P) in E1. apply priv_compat_iff in E1. congruence.
  - apply priv_compat_iff in E2. apply (compat_spec_perm _ _ (Permutation_sym P)) in E2. apply priv_compat_iff in E2. congruence.
Qed.

(* ------------------------------------------------------------------------------------------------ *)
(** * ensure_leaf_batch_compatible *)

Lemma guard_err_inv b c c' : guard b c = Err c' -> b = false /\ c' = c.
Proof. destruct b; cbn [guard]; intro H; [discriminate|]. inversion H. auto. Qed.
Lemma guard_false c : guard false c = Err c.
Proof. reflexivity. Qed.

Lemma asset_check_ok ms : asset_check ms = Ok tt <-> exists A, forall m, In m ms -> lf_asset m = A.
Proof.
  destruct ms as [|f r]; cbn [asset_check].
  - split; [intros _; exists 0; intros m []|reflexivity].
  - split.
    + intro H. apply guard_ok_inv in H. rewrite forallb_forall in H. exists (lf_asset f).
      intros m [<-|I]; [reflexivity|]. apply Z.eqb_eq. apply H. exact I.
    + intros (A & HA). assert (forallb (fun m => lf_asset m =? lf_asset f) r = true) as B.
      { apply forallb_forall. intros m I. apply Z.eqb_eq. rewrite (HA m (or_intror I)), (HA f (or_introl eq_refl)). reflexivity. }
      rewrite B. reflexivity.
Qed.
Lemma asset_check_err ms c : asset_check ms = Err c -> c = E_ASSET /\ ~ exists A, forall m, In m ms -> lf_asset m = A.
Proof.
  intro H. split.
  - destruct ms as [|f r]; cbn [asset_check] in H; [discriminate|]. apply guard_err_inv in H. tauto.
  - intro X. apply asset_check_ok in X. congruence.
Qed.

(* the reference the loop compares against: the one handed in, else some real member *)
Definition cand (reference : option (list Z)) (ms : list (list Z)) (rf : list Z) : Prop :=
  reference = Some rf \/ (reference = None /\ In rf ms /\ is_real_pb rf = true).

Definition loop_ok (reference : option (list Z)) (seen : list (list Z)) (ms : list (list Z)) (r' : option (list Z)) : Prop :=
  r' = match reference with Some rf => Some rf | None => hd_error (filter is_real_pb ms) end /\
  (forall rf, r' = Some rf -> forall m, In m ms -> is_real_pb m = true -> lf_bh m = lf_bh rf /\ lf_fee m = lf_fee rf) /\
  NoDup (map lf_null (filter is_real_pb ms)) /\
  (forall m, In m (filter is_real_pb ms) -> ~ In (lf_null m) seen).

Definition loop_err (reference : option (list Z)) (seen : list (list Z)) (ms : list (list Z)) (c : Z) : Prop :=
  (c = E_BLOCK /\ exists rf m, cand reference ms rf /\ In m ms /\ is_real_pb m = true /\ lf_bh m <> lf_bh rf) \/
  (c = E_FEE /\ exists rf m, cand reference ms rf /\ In m ms /\ is_real_pb m = true /\ lf_fee m <> lf_fee rf) \/
  (c = E_DUP_NULL /\ (~ NoDup (map lf_null (filter is_real_pb ms)) \/
                      exists m, In m (filter is_real_pb ms) /\ In (lf_null m) seen)).

Lemma cand_cons_some rf x r rf' : cand (Some rf) r rf' -> cand (Some rf) (x :: r) rf'.
Proof. intros [H|(H & _)]; [left; exact H|discriminate]. Qed.
Lemma cand_cons_none_dummy x r rf' : cand None r rf' -> cand None (x :: r) rf'.
Proof. intros [H|(H & I & R)]; [discriminate|]. right. split; [reflexivity|]. split; [right; exact I|exact R]. Qed.

Lemma loop_err_step_real reference rf seen m r c :
  is_real_pb m = true ->
  (reference = Some rf \/ (reference = None /\ rf = m)) ->
  ~ In (lf_null m) seen ->
  loop_err (Some rf) (lf_null m :: seen) r c -> loop_err reference seen (m :: r) c.
Proof.
  intros Rm Href NS H.
  assert (forall rf', cand (Some rf) r rf' -> cand reference (m :: r) rf') as CC.
  { intros rf' [E|(E & _)]; [|discriminate]. inversion E; subst rf'.
    destruct Href as [->|(-> & ->)]; [left; reflexivity|]. right. split; [reflexivity|]. split; [left; reflexivity|exact Rm]. }
  unfold loop_err in *. cbn [filter]. rewrite Rm. cbn [map].
  destruct H as [(-> & rf' & m' & C & I & R & N)|[(-> & rf' & m' & C & I & R & N)|(-> & H)]].
  - left. split; [reflexivity|]. exists rf', m'. split; [apply CC; exact C|]. split; [right; exact I|]. auto.
  - right. left. split; [reflexivity|]. exists rf', m'. split; [apply CC; exact C|]. split; [right; exact I|]. auto.
  - right. right. split; [reflexivity|]. destruct H as [ND|(m' & I & [E|S])].
    + left. intro X. inversion X; subst. contradiction.
    + left. intro X. inversion X as [|x xs NI _]; subst. apply NI. rewrite E. apply in_map. exact I.
    + right. exists m'. split; [right; exact I|exact S].
Qed.

Lemma loop_ok_step_real reference rf seen m r r' :
  is_real_pb m = true ->
  (reference = Some rf \/ (reference = None /\ rf = m)) ->
  (forall x, reference = Some x -> lf_bh m = lf_bh x /\ lf_fee m = lf_fee x) ->
  ~ In (lf_null m) seen ->
  loop_ok (Some rf) (lf_null m :: seen) r r' -> loop_ok reference seen (m :: r) r'.
Proof.
  intros Rm Href Hm NS (E & HB & HN & HS). unfold loop_ok. cbn [filter]. rewrite Rm. cbn [hd_error map].
  split; [|split; [|split]].
  - rewrite E. destruct Href as [->|(-> & ->)]; reflexivity.
  - intros x Ex m' [<-|I] R.
    + rewrite E in Ex. inversion Ex; subst x. destruct Href as [->|(-> & ->)]; [apply Hm; reflexivity|split; reflexivity].
    + apply (HB x Ex m' I R).
  - constructor; [|exact HN]. intro I. apply in_map_iff in I. destruct I as (m' & E' & I').
    apply (HS m' I'). left. symmetry. exact E'.
  - intros m' [<-|I]; [exact NS|]. intro S. apply (HS m' I). right. exact S.
Qed.

Lemma compat_loop_spec ms : forall reference seen,
  match compat_loop reference seen ms with
  | Ok r' => loop_ok reference seen ms r'
  | Err c => loop_err reference seen ms c
  end.
Proof.
  induction ms as [|m r IH]; intros reference seen; cbn [compat_loop].
  - unfold loop_ok. cbn [filter hd_error map]. split; [destruct reference; reflexivity|].
    split; [intros rf _ m []|]. split; [constructor|intros m []].
  - destruct (is_dummy_pb m) eqn:Dm.
    + assert (is_real_pb m = false) as Rm by (unfold is_real_pb; rewrite Dm; reflexivity).
      specialize (IH reference seen). destruct (compat_loop reference seen r) as [r'|c].
      * destruct IH as (E & HB & HN & HS). unfold loop_ok. cbn [filter]. rewrite Rm.
        split; [exact E|]. split; [|split; assumption].
        intros rf Er m' [<-|I] R; [congruence|]. apply (HB rf Er m' I R).
      * unfold loop_err in *. cbn [filter]. rewrite Rm.
        assert (forall rf', cand reference r rf' -> cand reference (m :: r) rf') as CC.
        { intros rf' [H|(H & I & R)]; [left; exact H|]. right. split; [exact H|]. split; [right; exact I|exact R]. }
        destruct IH as [(-> & rf' & m' & C & I & R & N)|[(-> & rf' & m' & C & I & R & N)|(-> & H)]].
        -- left. split; [reflexivity|]. exists rf', m'. split; [apply CC; exact C|]. split; [right; exact I|]. auto.
        -- right. left. split; [reflexivity|]. exists rf', m'. split; [apply CC; exact C|]. split; [right; exact I|]. auto.
        -- right. right. split; [reflexivity|]. exact H.
    + assert (is_real_pb m = true) as Rm by (unfold is_real_pb; rewrite Dm; reflexivity).
      destruct reference as [rf|].
      * (* compare with the reference *)
        destruct (list_eqb (lf_bh m) (lf_bh rf)) eqn:EB; cbn [guard rbind].
        2:{ apply list_eqb_false in EB. left. split; [reflexivity|]. exists rf, m.
            split; [left; reflexivity|]. split; [left; reflexivity|]. auto. }
        destruct (lf_fee m =? lf_fee rf) eqn:EF; cbn [guard rbind].
        2:{ apply Z.eqb_neq in EF. right. left. split; [reflexivity|]. exists rf, m.
            split; [left; reflexivity|]. split; [left; reflexivity|]. auto. }
        apply list_eqb_spec in EB. apply Z.eqb_eq in EF.
        destruct (dmem (lf_null m) seen) eqn:DS; cbn [negb guard rbind].
        { apply dmem_In in DS. right. right. split; [reflexivity|]. right. exists m. cbn [filter]. rewrite Rm.
          split; [left; reflexivity|exact DS]. }
        apply dmem_false in DS. specialize (IH (Some rf) (lf_null m :: seen)).
        destruct (compat_loop (Some rf) (lf_null m :: seen) r) as [r'|c].
        -- apply (loop_ok_step_real (Some rf) rf seen m r r' Rm (or_introl eq_refl)); [|exact DS|exact IH].
           intros x Ex. inversion Ex; subst x. auto.
        -- apply (loop_err_step_real (Some rf) rf seen m r c Rm (or_introl eq_refl) DS IH).
      * cbn [rbind].
        destruct (dmem (lf_null m) seen) eqn:DS; cbn [negb guard rbind].
        { apply dmem_In in DS. right. right. split; [reflexivity|]. right. exists m. cbn [filter]. rewrite Rm.
          split; [left; reflexivity|exact DS]. }
        apply dmem_false in DS. specialize (IH (Some m) (lf_null m :: seen)).
        destruct (compat_loop (Some m) (lf_null m :: seen) r) as [r'|c].
        -- apply (loop_ok_step_real None m seen m r r' Rm (or_intror (conj eq_refl eq_refl))); [|exact DS|exact IH].
           intros x Ex. discriminate.
        -- apply (loop_err_step_real None m seen m r c Rm (or_intror (conj eq_refl eq_refl)) DS IH).
Qed.

(* the specification of the pre-repair function: everything priv_compat asks for except the sums, plus "some real proof" *)
Definition nosum_spec (ms : list (list Z)) : Prop :=
  (exists A, forall m, In m ms -> lf_asset m = A) /\
  (exists bh fee, forall m, In m ms -> is_real_pb m = true -> lf_bh m = bh /\ lf_fee m = fee) /\
  NoDup (map lf_null (filter is_real_pb ms)) /\
  (exists m, In m ms /\ is_real_pb m = true).

Lemma hd_error_filter_In {A} (f : A -> bool) l x : hd_error (filter f l) = Some x -> In x l /\ f x = true.
Proof.
  intro H. assert (In x (filter f l)) as I.
  { destruct (filter f l) as [|y r]; [discriminate|]. inversion H. left. reflexivity. }
  apply filter_In in I. exact I.
Qed.

Lemma nosum_ok_iff ms : ensure_leaf_batch_compatible_nosum ms = Ok tt <-> nosum_spec ms.
Proof.
  unfold ensure_leaf_batch_compatible_nosum, nosum_spec. split.
  - intro H. destruct (asset_check ms) as [[]|c0] eqn:AC; cbn [rbind] in H; [|discriminate].
    destruct (compat_loop None [] ms) as [v|c1] eqn:E; cbn [rbind] in H; [|discriminate].
    apply guard_ok_inv in H.
    pose proof (compat_loop_spec ms None []) as L. rewrite E in L. destruct L as (Ev & HB & HN & HS).
    destruct v as [rf|]; [|discriminate]. cbn [hd_error] in Ev. symmetry in Ev. apply hd_error_filter_In in Ev.
    split; [apply asset_check_ok; exact AC|]. split; [|split; [exact HN|]].
    + exists (lf_bh rf), (lf_fee rf). intros m I R. apply (HB rf eq_refl m I R).
    + exists rf. exact Ev.
  - intros (HA & (bh & fee & HB) & HN & (m0 & I0 & R0)).
    rewrite (proj2 (asset_check_ok ms) HA). cbn [rbind].
    pose proof (compat_loop_spec ms None []) as L. destruct (compat_loop None [] ms) as [r'|c].
    + destruct L as (Ev & _). cbn [rbind]. destruct r' as [rf|]; [reflexivity|]. exfalso.
      assert (In m0 (filter is_real_pb ms)) as I by (apply filter_In; split; assumption).
      destruct (filter is_real_pb ms); [destruct I|discriminate].
    + exfalso. destruct L as [(-> & rf & m & C & I & R & N)|[(-> & rf & m & C & I & R & N)|(-> & [N|(m & _ & [])])]].
      * destruct C as [C|(_ & Irf & Rrf)]; [discriminate|]. destruct (HB m I R), (HB rf Irf Rrf). congruence.
      * destruct C as [C|(_ & Irf & Rrf)]; [discriminate|]. destruct (HB m I R), (HB rf Irf Rrf). congruence.
      * contradiction.
Qed.

(* which clause fails, per error class *)
Lemma nosum_err ms c : ensure_leaf_batch_compatible_nosum ms = Err c ->
  (c = E_ASSET /\ ~ (exists A, forall m, In m ms -> lf_asset m = A)) \/
  ((c = E_BLOCK \/ c = E_FEE) /\ (exists A, forall m, In m ms -> lf_asset m = A) /\
      ~ (exists bh fee, forall m, In m ms -> is_real_pb m = true -> lf_bh m = bh /\ lf_fee m = fee)) \/
  (c = E_DUP_NULL /\ (exists A, forall m, In m ms -> lf_asset m = A) /\ ~ NoDup (map lf_null (filter is_real_pb ms))) \/
  (c = E_ALL_DUMMY /\ (exists A, forall m, In m ms -> lf_asset m = A) /\ forall m, In m ms -> is_dummy_pb m = true).
Proof.
  unfold ensure_leaf_batch_compatible_nosum. intro H.
  destruct (asset_check ms) as [[]|c0] eqn:EA; cbn [rbind] in H.
  2:{ inversion H; subst c0. left. apply asset_check_err. exact EA. }
  right. apply asset_check_ok in EA.
  pose proof (compat_loop_spec ms None []) as L. destruct (compat_loop None [] ms) as [r'|c1]; cbn [rbind] in H.
  - destruct r' as [rf|]; [discriminate|]. cbn [guard] in H. inversion H; subst c.
    right. right. split; [reflexivity|]. split; [exact EA|]. destruct L as (Ev & _). cbn in Ev.
    intros m I. destruct (is_dummy_pb m) eqn:Dm; [reflexivity|]. exfalso.
    assert (In m (filter is_real_pb ms)) as I' by (apply filter_In; split; [exact I|apply is_real_dummy; exact Dm]).
    destruct (filter is_real_pb ms); [destruct I'|discriminate].
  - inversion H; subst c1.
    destruct L as [(-> & rf & m & C & I & R & N)|[(-> & rf & m & C & I & R & N)|(-> & [N|(m & _ & [])])]].
    + left. split; [left; reflexivity|]. split; [exact EA|]. intros (bh & fee & HB).
      destruct C as [C|(_ & Irf & Rrf)]; [discriminate|]. destruct (HB m I R), (HB rf Irf Rrf). congruence.
    + left. split; [right; reflexivity|]. split; [exact EA|]. intros (bh & fee & HB).
      destruct C as [C|(_ & Irf & Rrf)]; [discriminate|]. destruct (HB m I R), (HB rf Irf Rrf). congruence.
    + right. left. split; [reflexivity|]. split; [exact EA|exact N].
Qed.

(* the repaired function: the pre-repair checks, then the grouped sums *)
Lemma ensure_ok_iff ms :
  ensure_leaf_batch_compatible ms = Ok tt <-> nosum_spec ms /\ forall k, total k ms < two32.
Proof.
  unfold ensure_leaf_batch_compatible. split.
  - intro H. destruct (ensure_leaf_batch_compatible_nosum ms) as [[]|c] eqn:E; cbn [rbind] in H; [|discriminate].
    split; [apply nosum_ok_iff; exact E|apply sum_check_ok; exact H].
  - intros [H1 H2]. rewrite (proj2 (nosum_ok_iff ms) H1). cbn [rbind]. apply sum_check_ok. exact H2.
Qed.

(* ------------------------------------------------------------------------------------------------ *)
(** * PrivateBatchProver::commit *)

Lemma check_leaf_children_ok padding cs : check_leaf_children padding cs = Ok tt <->
  forall c, In c cs -> zlen (c_pis c) = PR_LEAF_PI_LEN /\ c_ok c = true /\ (padding = true -> lf_asset (c_pis c) = 0).
Proof.
  induction cs as [|c r IH]; cbn [check_leaf_children].
  - split; [intros _ c []|reflexivity].
  - split.
    + intro H. invg H. invg H. invg H. apply Z.eqb_eq in G. intros c' [<-|I].
      * split; [exact G|]. split; [exact G0|]. intros ->. cbn [negb orb] in G1. apply Z.eqb_eq. exact G1.
      * apply IH; assumption.
    + intro H. destruct (H c (or_introl eq_refl)) as (L & V & A).
      rewrite (proj2 (Z.eqb_eq _ _) L), V. cbn [guard rbind].
      assert (negb padding || (lf_asset (c_pis c) =? 0) = true) as B.
      { destruct padding; cbn [negb orb]; [|reflexivity]. apply Z.eqb_eq. apply A. reflexivity. }
      rewrite B. cbn [guard rbind]. apply IH. intros c' I. apply H. right. exact I.
Qed.
Lemma check_leaf_children_err padding cs k : check_leaf_children padding cs = Err k ->
  (k = E_PI_LEN /\ exists c, In c cs /\ zlen (c_pis c) <> PR_LEAF_PI_LEN) \/
  (k = E_INVALID /\ exists c, In c cs /\ c_ok c = false) \/
  (k = E_PAD_ASSET /\ padding = true /\ exists c, In c cs /\ lf_asset (c_pis c) <> 0).
Proof.
  induction cs as [|c r IH]; cbn [check_leaf_children]; [discriminate|].
  destruct (zlen (c_pis c) =? PR_LEAF_PI_LEN) eqn:L; cbn [guard rbind].
  2:{ intro H. inversion H. left. split; [reflexivity|]. exists c. split; [left; reflexivity|]. apply Z.eqb_neq. exact L. }
  destruct (c_ok c) eqn:V; cbn [guard rbind].
  2:{ intro H. inversion H. right. left. split; [reflexivity|]. exists c. split; [left; reflexivity|exact V]. }
  destruct (negb padding || (lf_asset (c_pis c) =? 0)) eqn:A; cbn [guard rbind].
  2:{ intro H. inversion H. right. right. split; [reflexivity|]. apply orb_false_iff in A. destruct A as [A1 A2].
      split; [destruct padding; [reflexivity|discriminate]|]. exists c. split; [left; reflexivity|]. apply Z.eqb_neq. exact A2. }
  intro H. destruct (IH H) as [(E & c' & I & X)|[(E & c' & I & X)|(E & P & c' & I & X)]].
  - left. split; [exact E|]. exists c'. split; [right; exact I|exact X].
  - right. left. split; [exact E|]. exists c'. split; [right; exact I|exact X].
  - right. right. split; [exact E|]. split; [exact P|]. exists c'. split; [right; exact I|exact X].
Qed.

Lemma zlen_map {A B} (f : A -> B) l : zlen (map f l) = zlen l.
Proof. unfold zlen. rewrite map_length. reflexivity. Qed.

Lemma private_preflight_ok_iff n cs :
  private_commit_preflight n cs = Ok tt <->
  0 < zlen cs <= n /\
  (forall c, In c cs -> zlen (c_pis c) = PR_LEAF_PI_LEN /\ c_ok c = true /\ (zlen cs < n -> lf_asset (c_pis c) = 0)) /\
  nosum_spec (map c_pis cs) /\ (forall k, total k (map c_pis cs) < two32).
Proof.
  unfold private_commit_preflight, private_commit_preflight_with. pose proof (zlen_nonneg cs) as NN. split.
  - intro H. invg H. invg H. inv1 H. destruct v. apply negb_true_iff, Z.eqb_neq in G. apply Z.leb_le in G0.
    pose proof (proj1 (check_leaf_children_ok _ _) E) as E'. clear E. rename E' into E.
    pose proof (proj1 (ensure_ok_iff _) H) as [H1 H2].
    split; [lia|]. split; [|split; assumption].
    intros c I. destruct (E c I) as (L & V & A). split; [exact L|]. split; [exact V|]. intro Lt. apply A. apply Z.ltb_lt. exact Lt.
  - intros (R & HC & H1 & H2).
    assert ((zlen cs =? 0) = false) as B0 by (apply Z.eqb_neq; lia). rewrite B0. cbn [negb guard rbind].
    assert ((zlen cs <=? n) = true) as B1 by (apply Z.leb_le; lia). rewrite B1. cbn [guard rbind].
    assert (check_leaf_children (zlen cs <? n) cs = Ok tt) as B2.
    { apply check_leaf_children_ok. intros c I. destruct (HC c I) as (L & V & A). split; [exact L|]. split; [exact V|].
      intro Lt. apply A. apply Z.ltb_lt. exact Lt. }
    rewrite B2. cbn [rbind]. apply ensure_ok_iff. split; assumption.
Qed.

(* what a validated padding template is, as far as the batch logic cares *)
Definition dummy_sentinel (t : list Z) : Prop := is_dummy_pb t = true /\ lf_asset t = 0.

Lemma filter_repeat_false {A} (f : A -> bool) x j : f x = false -> filter f (repeat x j) = [].
Proof. intro H. induction j as [|j IH]; cbn [repeat filter]; [reflexivity|]. rewrite H. exact IH. Qed.

Lemma padded_in n ms t m : In m (padded n ms t) -> In m ms \/ (m = t /\ zlen ms < n).
Proof.
  unfold padded. intro I. apply in_app_or in I. destruct I as [I|I]; [left; exact I|]. right.
  split; [apply repeat_spec in I; exact I|].
  destruct (Z.to_nat (n - zlen ms)) eqn:E; [destruct I|]. lia.
Qed.

Lemma padded_compat_spec n ms t :
  dummy_sentinel t ->
  (exists A, forall m, In m ms -> lf_asset m = A) ->
  (zlen ms < n -> forall m, In m ms -> lf_asset m = 0) ->
  (exists bh fee, forall m, In m ms -> is_real_pb m = true -> lf_bh m = bh /\ lf_fee m = fee) ->
  NoDup (map lf_null (filter is_real_pb ms)) ->
  (forall k, total k ms < two32) ->
  compat_spec (padded n ms t).
Proof.
  intros [Dt At] (A & HA) HP (bh & fee & HB) HN HS.
  assert (is_real_pb t = false) as Rt by (unfold is_real_pb; rewrite Dt; reflexivity).
  split; [|split; [|split]].
  - destruct (Z_lt_dec (zlen ms) n) as [Lt|Ge].
    + exists 0. intros m I. apply padded_in in I. destruct I as [I|[-> _]]; [apply HP; assumption|exact At].
    + exists A. intros m I. apply padded_in in I. destruct I as [I|[_ Lt]]; [apply HA; exact I|contradiction].
  - exists bh, fee. intros m I R. apply padded_in in I. destruct I as [I|[-> _]]; [apply HB; assumption|congruence].
  - unfold padded. rewrite filter_app, (filter_repeat_false _ _ _ Rt), app_nil_r. exact HN.
  - intro k. unfold padded. rewrite total_app, (total_repeat_dummy _ _ _ Dt). specialize (HS k). lia.
Qed.

Lemma private_accept_compat_spec n cs t :
  private_commit_preflight n cs = Ok tt -> dummy_sentinel t -> compat_spec (padded n (map c_pis cs) t).
Proof.
  intros H Dt. apply private_preflight_ok_iff in H. destruct H as (R & HC & (HA & HB & HN & _) & HS).
  apply padded_compat_spec; try assumption.
  rewrite zlen_map. intros Lt m I. apply in_map_iff in I. destruct I as (c & <- & I). apply (HC c I). exact Lt.
Qed.

Lemma NoDup_app_left {A} (a b : list A) : NoDup (a ++ b) -> NoDup a.
Proof.
  induction a as [|x r IH]; cbn [app]; intro H; [constructor|].
  inversion H as [|y ys NI ND]; subst. constructor; [|apply IH; exact ND].
  intro I. apply NI. apply in_or_app. left. exact I.
Qed.

Lemma compat_spec_prefix n ms t : compat_spec (padded n ms t) -> dummy_sentinel t ->
  (exists A, forall m, In m ms -> lf_asset m = A) /\
  (exists bh fee, forall m, In m ms -> is_real_pb m = true -> lf_bh m = bh /\ lf_fee m = fee) /\
  NoDup (map lf_null (filter is_real_pb ms)) /\
  (forall k, total k ms < two32).
Proof.
  intros ((A & HA) & (bh & fee & HB) & HN & HS) [Dt At].
  assert (forall m, In m ms -> In m (padded n ms t)) as Inc by (intros m I; unfold padded; apply in_or_app; left; exact I).
  split; [exists A; intros m I; apply HA, Inc, I|].
  split; [exists bh, fee; intros m I; apply HB, Inc, I|].
  split.
  - unfold padded in HN. rewrite filter_app, map_app in HN. apply NoDup_app_left in HN. exact HN.
  - intro k. specialize (HS k). unfold padded in HS. rewrite total_app, (total_repeat_dummy _ _ _ Dt) in HS. lia.
Qed.

Lemma private_reject_not_compat n cs t k :
  private_commit_preflight n cs = Err k ->
  k <> E_EMPTY -> k <> E_TOO_MANY -> k <> E_PI_LEN -> k <> E_INVALID -> k <> E_PAD_ASSET -> k <> E_ALL_DUMMY ->
  dummy_sentinel t -> ~ compat_spec (padded n (map c_pis cs) t).
Proof.
  unfold private_commit_preflight, private_commit_preflight_with. intros H N1 N2 N3 N4 N5 N6 Dt CS.
  destruct (negb (zlen cs =? 0)); cbn [guard rbind] in H; [|inversion H; congruence].
  destruct (zlen cs <=? n); cbn [guard rbind] in H; [|inversion H; congruence].
  destruct (check_leaf_children (zlen cs <? n) cs) as [[]|c] eqn:EC; cbn [rbind] in H.
  2:{ inversion H; subst c. apply check_leaf_children_err in EC. destruct EC as [(E & _)|[(E & _)|(E & _)]]; congruence. }
  destruct (compat_spec_prefix _ _ _ CS Dt) as (PA & PB & PN & PS).
  unfold ensure_leaf_batch_compatible in H.
  destruct (ensure_leaf_batch_compatible_nosum (map c_pis cs)) as [[]|c] eqn:EN; cbn [rbind] in H.
  - apply sum_check_err in H. destruct H as [_ X]. contradiction.
  - inversion H; subst c. apply nosum_err in EN.
    destruct EN as [(_ & X)|[(_ & _ & X)|[(_ & _ & X)|(E & _)]]]; try contradiction; try congruence.
Qed.

Lemma private_padding_asset_not_compat n cs t :
  private_commit_preflight n cs = Err E_PAD_ASSET -> dummy_sentinel t -> ~ compat_spec (padded n (map c_pis cs) t).
Proof.
  unfold private_commit_preflight, private_commit_preflight_with. intros H [Dt At] ((A & HA) & _).
  destruct (negb (zlen cs =? 0)); cbn [guard rbind] in H; [|inversion H].
  destruct (zlen cs <=? n); cbn [guard rbind] in H; [|inversion H].
  destruct (check_leaf_children (zlen cs <? n) cs) as [[]|c] eqn:EC; cbn [rbind] in H.
  - unfold ensure_leaf_batch_compatible in H.
    destruct (ensure_leaf_batch_compatible_nosum (map c_pis cs)) as [[]|c] eqn:EN; cbn [rbind] in H.
    + apply sum_check_err in H. destruct H as [X _]. discriminate.
    + inversion H; subst c. apply nosum_err in EN.
      destruct EN as [(E & _)|[([E|E] & _)|[(E & _)|(E & _)]]]; discriminate.
  - inversion H; subst c. apply check_leaf_children_err in EC.
    destruct EC as [(E & _)|[(E & _)|(_ & P & c & I & X)]]; try discriminate.
    apply Z.ltb_lt in P. apply X.
    assert (In (c_pis c) (padded n (map c_pis cs) t)) as I1 by (unfold padded; apply in_or_app; left; apply in_map; exact I).
    assert (In t (padded n (map c_pis cs) t)) as I2.
    { unfold padded. apply in_or_app. right. rewrite zlen_map. destruct (Z.to_nat (n - zlen cs)) eqn:E; [lia|]. left. reflexivity. }
    rewrite (HA _ I1), <- (HA _ I2). exact At.
Qed.

(* order of the checks *)
Lemma private_order n cs :
  (zlen cs = 0 -> private_commit_preflight n cs = Err E_EMPTY) /\
  (0 < zlen cs -> n < zlen cs -> private_commit_preflight n cs = Err E_TOO_MANY) /\
  (forall k, private_commit_preflight n cs = Err k ->
     k = E_ASSET \/ k = E_BLOCK \/ k = E_FEE \/ k = E_DUP_NULL \/ k = E_ALL_DUMMY \/ k = E_SUM ->
     0 < zlen cs <= n /\
     forall c, In c cs -> zlen (c_pis c) = PR_LEAF_PI_LEN /\ c_ok c = true /\ (zlen cs < n -> lf_asset (c_pis c) = 0)) /\
  (forall k, private_commit_preflight n cs = Err k -> k = E_SUM -> nosum_spec (map c_pis cs)).
Proof.
  unfold private_commit_preflight, private_commit_preflight_with. pose proof (zlen_nonneg cs) as NN.
  split; [|split; [|split]].
  - intros ->. reflexivity.
  - intros P L. assert ((zlen cs =? 0) = false) as B0 by (apply Z.eqb_neq; lia). rewrite B0. cbn [negb guard rbind].
    assert ((zlen cs <=? n) = false) as B1 by (apply Z.leb_gt; lia). rewrite B1. reflexivity.
  - intros k H K.
    destruct (zlen cs =? 0) eqn:B0; cbn [negb guard rbind] in H; [inversion H; subst k; unfold E_EMPTY, E_ASSET, E_BLOCK, E_FEE, E_DUP_NULL, E_ALL_DUMMY, E_SUM in K; lia|].
    destruct (zlen cs <=? n) eqn:B1; cbn [guard rbind] in H; [|inversion H; subst k; unfold E_TOO_MANY, E_ASSET, E_BLOCK, E_FEE, E_DUP_NULL, E_ALL_DUMMY, E_SUM in K; lia].
    apply Z.eqb_neq in B0. apply Z.leb_le in B1. split; [lia|].
    destruct (check_leaf_children (zlen cs <? n) cs) as [[]|c] eqn:EC; cbn [rbind] in H.
    + intros c I. destruct (proj1 (check_leaf_children_ok _ _) EC c I) as (L & V & A). split; [exact L|]. split; [exact V|].
      intro Lt. apply A. apply Z.ltb_lt. exact Lt.
    + inversion H; subst c. apply check_leaf_children_err in EC.
      destruct EC as [(E & _)|[(E & _)|(E & _)]]; subst k; unfold E_PI_LEN, E_INVALID, E_PAD_ASSET, E_ASSET, E_BLOCK, E_FEE, E_DUP_NULL, E_ALL_DUMMY, E_SUM in K; lia.
  - intros k H ->.
    destruct (negb (zlen cs =? 0)); cbn [guard rbind] in H; [|discriminate].
    destruct (zlen cs <=? n); cbn [guard rbind] in H; [|discriminate].
    destruct (check_leaf_children (zlen cs <? n) cs) as [[]|c] eqn:EC; cbn [rbind] in H.
    2:{ inversion H; subst c. apply check_leaf_children_err in EC. destruct EC as [(E & _)|[(E & _)|(E & _)]]; discriminate. }
    unfold ensure_leaf_batch_compatible in H.
    destruct (ensure_leaf_batch_compatible_nosum (map c_pis cs)) as [[]|c] eqn:EN; cbn [rbind] in H.
    + apply nosum_ok_iff. exact EN.
    + inversion H; subst c. apply nosum_err in EN. destruct EN as [(E & _)|[([E|E] & _)|[(E & _)|(E & _)]]]; discriminate.
Qed.

(* the pre-repair preflight accepted batches the circuit cannot prove: two real leaves paying 2^31 each to one account *)
Definition f1_leaf (nullifier : Z) : list Z :=
  [0; 2147483648; 0; 10] ++ [nullifier; 0; 0; 0] ++ [5; 6; 7; 8] ++ [0; 0; 0; 0] ++ [9; 0; 0; 0] ++ [3].
Definition f1_batch : list child := [mkChild (f1_leaf 1) true; mkChild (f1_leaf 2) true].
Lemma nosum_preflight_refuted :
  private_commit_preflight_nosum 2 f1_batch = Ok tt /\
  priv_compat (padded 2 (map c_pis f1_batch) (repeat 0 21)) = false /\
  private_commit_preflight 2 f1_batch = Err E_SUM.
Proof. vm_compute. repeat split. Qed.

(* ------------------------------------------------------------------------------------------------ *)
(** * Public batch *)

Definition pub_spec (l : list (list Z)) : Prop :=
  exists a f bh, forall m, In m l -> is_real_inner m = true -> in_asset m = a /\ in_fee m = f /\ in_bh m = bh.

Lemma is_real_inner_dummy m : is_real_inner m = true <-> is_dummy_inner m = false.
Proof. unfold is_real_inner. destruct (is_dummy_inner m); cbn [negb]; split; congruence. Qed.

Lemma pub_compat_iff l : pub_compat l = true <-> pub_spec l.
Proof.
  unfold pub_compat, pub_spec, pub_ref.
  destruct (find is_real_inner l) as [rf|] eqn:Fd.
  - apply find_some in Fd. destruct Fd as [Irf Rrf]. rewrite forallb_forall. split.
    + intro H. exists (in_asset rf), (in_fee rf), (in_bh rf). intros m I R. specialize (H m I).
      apply is_real_inner_dummy in R. rewrite R in H. cbn [orb] in H. rewrite !andb_true_iff in H.
      destruct H as [[H1 H2] H3]. apply Z.eqb_eq in H1, H2. apply list_eqb_spec in H3. auto.
    + intros (a & f & bh & H) m I. destruct (is_dummy_inner m) eqn:Dm; [reflexivity|]. cbn [orb].
      destruct (H m I (proj2 (is_real_inner_dummy m) Dm)) as (E1 & E2 & E3). destruct (H rf Irf Rrf) as (E4 & E5 & E6).
      rewrite !andb_true_iff. split; [split; apply Z.eqb_eq; congruence|apply list_eqb_spec; congruence].
  - assert (forall m, In m l -> is_dummy_inner m = true) as AD.
    { intros m I. pose proof (find_none _ _ Fd m I) as N. unfold is_real_inner in N. destruct (is_dummy_inner m); [reflexivity|discriminate]. }
    rewrite forallb_forall. split.
    + intros _. exists 0, 0, zero4. intros m I R. apply is_real_inner_dummy in R. rewrite (AD m I) in R. discriminate.
    + intros _ m I. rewrite (AD m I). reflexivity.
Qed.

Lemma pub_spec_perm l l' : Permutation l l' -> pub_spec l -> pub_spec l'.
Proof.
  intros P (a & f & bh & H). exists a, f, bh. intros m I. apply H. eapply Permutation_in; [apply Permutation_sym; exact P|exact I].
Qed.
Lemma pub_compat_perm l l' : Permutation l l' -> pub_compat l = pub_compat l'.
Proof.
  intro P. destruct (pub_compat l) eqn:E1, (pub_compat l') eqn:E2; try reflexivity.
  - apply pub_compat_iff in E1. apply (pub_spec_perm _ _ P) in E1. apply pub_compat_iff in E1. congruence.
  - apply pub_compat_iff in E2. apply (pub_spec_perm _ _ (Permutation_sym P)) in E2. apply pub_compat_iff in E2. congruence.
Qed.

Definition icand (reference : option (list Z)) (ms : list (list Z)) (rf : list Z) : Prop :=
  reference = Some rf \/ (reference = None /\ In rf ms /\ is_real_inner rf = true).

Lemma inner_loop_spec ms : forall reference,
  match inner_loop reference ms with
  | Ok r' => r' = match reference with Some rf => Some rf | None => hd_error (filter is_real_inner ms) end /\
             (forall rf, r' = Some rf -> forall m, In m ms -> is_real_inner m = true ->
                in_bh m = in_bh rf /\ in_asset m = in_asset rf /\ in_fee m = in_fee rf)
  | Err c => exists rf m, icand reference ms rf /\ In m ms /\ is_real_inner m = true /\
             ((c = E_BLOCK /\ in_bh m <> in_bh rf) \/ (c = E_ASSET /\ in_asset m <> in_asset rf) \/
              (c = E_FEE /\ in_fee m <> in_fee rf))
  end.
Proof.
  induction ms as [|m r IH]; intro reference; cbn [inner_loop].
  - cbn [filter hd_error]. split; [destruct reference; reflexivity|intros rf _ m []].
  - destruct (is_dummy_inner m) eqn:Dm.
    + assert (is_real_inner m = false) as Rm by (unfold is_real_inner; rewrite Dm; reflexivity).
      specialize (IH reference). cbn [filter]. rewrite Rm. destruct (inner_loop reference r) as [r'|c].
      * destruct IH as [E HB]. split; [exact E|]. intros rf Er m' [<-|I] R; [congruence|]. apply (HB rf Er m' I R).
      * destruct IH as (rf & m' & C & I & R & X). exists rf, m'. split; [|split; [right; exact I|split; assumption]].
        destruct C as [C|(C & I' & R')]; [left; exact C|right]. split; [exact C|]. split; [right; exact I'|exact R'].
    + assert (is_real_inner m = true) as Rm by (unfold is_real_inner; rewrite Dm; reflexivity).
      cbn [filter]. rewrite Rm. cbn [hd_error]. destruct reference as [rf|].
      * destruct (list_eqb (in_bh m) (in_bh rf)) eqn:EB; cbn [guard rbind].
        2:{ apply list_eqb_false in EB. exists rf, m. split; [left; reflexivity|]. split; [left; reflexivity|]. split; [exact Rm|]. left. auto. }
        destruct (in_asset m =? in_asset rf) eqn:EA; cbn [guard rbind].
        2:{ apply Z.eqb_neq in EA. exists rf, m. split; [left; reflexivity|]. split; [left; reflexivity|]. split; [exact Rm|]. right. left. auto. }
        destruct (in_fee m =? in_fee rf) eqn:EF; cbn [guard rbind].
        2:{ apply Z.eqb_neq in EF. exists rf, m. split; [left; reflexivity|]. split; [left; reflexivity|]. split; [exact Rm|]. right. right. auto. }
        apply list_eqb_spec in EB. apply Z.eqb_eq in EA, EF. specialize (IH (Some rf)).
        destruct (inner_loop (Some rf) r) as [r'|c].
        -- destruct IH as [E HB]. split; [exact E|]. intros x Ex m' [<-|I] R.
           ++ rewrite E in Ex. inversion Ex; subst x. auto.
           ++ apply (HB x Ex m' I R).
        -- destruct IH as (rf' & m' & C & I & R & X). exists rf', m'.
           split; [destruct C as [C|(C & _)]; [left; exact C|discriminate]|]. split; [right; exact I|split; assumption].
      * specialize (IH (Some m)). destruct (inner_loop (Some m) r) as [r'|c].
        -- destruct IH as [E HB]. split; [exact E|]. intros x Ex m' [<-|I] R.
           ++ rewrite E in Ex. inversion Ex; subst x. auto.
           ++ apply (HB x Ex m' I R).
        -- destruct IH as (rf' & m' & C & I & R & X). exists rf', m'.
           split; [|split; [right; exact I|split; assumption]].
           destruct C as [C|(C & _)]; [|discriminate]. inversion C; subst rf'. right. split; [reflexivity|]. split; [left; reflexivity|exact Rm].
Qed.

Lemma ensure_pub_ok_iff ms :
  ensure_private_batch_compatible ms = Ok tt <-> pub_spec ms /\ exists m, In m ms /\ is_real_inner m = true.
Proof.
  unfold ensure_private_batch_compatible. pose proof (inner_loop_spec ms None) as L. split.
  - intro H. destruct (inner_loop None ms) as [r'|c]; cbn [rbind] in H; [|discriminate].
    destruct r' as [rf|]; [|discriminate]. destruct L as [E HB]. symmetry in E. apply hd_error_filter_In in E.
    split; [|exists rf; exact E]. exists (in_asset rf), (in_fee rf), (in_bh rf). intros m I R. destruct (HB rf eq_refl m I R) as (X & Y & Z0). auto.
  - intros [(a & f & bh & H) (m0 & I0 & R0)]. destruct (inner_loop None ms) as [r'|c]; cbn [rbind].
    + destruct L as [E _]. destruct r' as [rf|]; [reflexivity|]. exfalso.
      assert (In m0 (filter is_real_inner ms)) as I by (apply filter_In; split; assumption).
      destruct (filter is_real_inner ms); [destruct I|discriminate].
    + exfalso. destruct L as (rf & m & C & I & R & X). destruct C as [C|(_ & Irf & Rrf)]; [discriminate|].
      destruct (H m I R) as (X1 & X2 & X3), (H rf Irf Rrf) as (Y1 & Y2 & Y3).
      destruct X as [(_ & X)|[(_ & X)|(_ & X)]]; congruence.
Qed.
Lemma ensure_pub_err ms c : ensure_private_batch_compatible ms = Err c ->
  ((c = E_BLOCK \/ c = E_ASSET \/ c = E_FEE) /\ ~ pub_spec ms) \/
  (c = E_ALL_DUMMY /\ forall m, In m ms -> is_dummy_inner m = true).
Proof.
  unfold ensure_private_batch_compatible. pose proof (inner_loop_spec ms None) as L. intro H.
  destruct (inner_loop None ms) as [r'|c1]; cbn [rbind] in H.
  - destruct r' as [rf|]; [discriminate|]. cbn [guard] in H. inversion H; subst c. right. split; [reflexivity|].
    destruct L as [E _]. cbn in E. intros m I. destruct (is_dummy_inner m) eqn:Dm; [reflexivity|]. exfalso.
    assert (In m (filter is_real_inner ms)) as I' by (apply filter_In; split; [exact I|apply is_real_inner_dummy; exact Dm]).
    destruct (filter is_real_inner ms); [destruct I'|discriminate].
  - inversion H; subst c1. left. destruct L as (rf & m & C & I & R & X). split; [destruct X as [(E & _)|[(E & _)|(E & _)]]; auto|].
    intros (a & f & bh & HS). destruct C as [C|(_ & Irf & Rrf)]; [discriminate|].
    destruct (HS m I R) as (X1 & X2 & X3), (HS rf Irf Rrf) as (Y1 & Y2 & Y3).
    destruct X as [(_ & X)|[(_ & X)|(_ & X)]]; congruence.
Qed.

Lemma check_inner_children_ok pi_len cs : check_inner_children pi_len cs = Ok tt <->
  forall c, In c cs -> zlen (c_pis c) = pi_len /\ c_ok c = true.
Proof.
  induction cs as [|c r IH]; cbn [check_inner_children].
  - split; [intros _ c []|reflexivity].
  - split.
    + intro H. invg H. invg H. apply Z.eqb_eq in G. intros c' [<-|I]; [split; assumption|]. apply IH; assumption.
    + intro H. destruct (H c (or_introl eq_refl)) as (L & V). rewrite (proj2 (Z.eqb_eq _ _) L), V. cbn [guard rbind].
      apply IH. intros c' I. apply H. right. exact I.
Qed.
Lemma check_inner_children_err pi_len cs k : check_inner_children pi_len cs = Err k -> k = E_PI_LEN \/ k = E_INVALID.
Proof.
  induction cs as [|c r IH]; cbn [check_inner_children]; [discriminate|].
  destruct (zlen (c_pis c) =? pi_len); cbn [guard rbind]; [|intro H; inversion H; left; reflexivity].
  destruct (c_ok c); cbn [guard rbind]; [|intro H; inversion H; right; reflexivity]. exact IH.
Qed.

Definition inner_dummy_sentinel (t : list Z) : Prop := is_dummy_inner t = true.

Lemma public_preflight_ok_iff m pi_len cs :
  public_preflight m pi_len cs = Ok tt <->
  0 < zlen cs <= m /\ (forall c, In c cs -> zlen (c_pis c) = pi_len /\ c_ok c = true) /\
  pub_spec (map c_pis cs) /\ exists x, In x (map c_pis cs) /\ is_real_inner x = true.
Proof.
  unfold public_preflight. pose proof (zlen_nonneg cs) as NN. split.
  - intro H. invg H. invg H. inv1 H. destruct v. apply negb_true_iff, Z.eqb_neq in G. apply Z.leb_le in G0.
    pose proof (proj1 (check_inner_children_ok _ _) E) as E'. pose proof (proj1 (ensure_pub_ok_iff _) H) as [H1 H2].
    split; [lia|]. split; [exact E'|]. split; assumption.
  - intros (R & HC & H1 & H2).
    assert ((zlen cs =? 0) = false) as B0 by (apply Z.eqb_neq; lia). rewrite B0. cbn [negb guard rbind].
    assert ((zlen cs <=? m) = true) as B1 by (apply Z.leb_le; lia). rewrite B1. cbn [guard rbind].
    rewrite (proj2 (check_inner_children_ok _ _) HC). cbn [rbind]. apply ensure_pub_ok_iff. split; assumption.
Qed.

Lemma padded_pub_spec n ms t : is_dummy_inner t = true -> (pub_spec (padded n ms t) <-> pub_spec ms).
Proof.
  intro Dt. assert (is_real_inner t = false) as Rt by (unfold is_real_inner; rewrite Dt; reflexivity).
  split; intros (a & f & bh & H); exists a, f, bh; intros m I R.
  - apply H; [unfold padded; apply in_or_app; left; exact I|exact R].
  - apply padded_in in I. destruct I as [I|[-> _]]; [apply H; assumption|congruence].
Qed.

Lemma public_reject_not_compat m pi_len cs t k :
  public_preflight m pi_len cs = Err k ->
  k <> E_EMPTY -> k <> E_TOO_MANY -> k <> E_PI_LEN -> k <> E_INVALID -> k <> E_ALL_DUMMY ->
  is_dummy_inner t = true -> ~ pub_spec (padded m (map c_pis cs) t).
Proof.
  unfold public_preflight. intros H N1 N2 N3 N4 N5 Dt PS. apply (proj1 (padded_pub_spec m (map c_pis cs) t Dt)) in PS.
  destruct (negb (zlen cs =? 0)); cbn [guard rbind] in H; [|inversion H; congruence].
  destruct (zlen cs <=? m); cbn [guard rbind] in H; [|inversion H; congruence].
  destruct (check_inner_children pi_len cs) as [[]|c] eqn:EC; cbn [rbind] in H.
  2:{ inversion H; subst c. apply check_inner_children_err in EC. destruct EC; congruence. }
  apply ensure_pub_err in H. destruct H as [(_ & X)|(E & _)]; [contradiction|congruence].
Qed.

Lemma public_order m pi_len cs :
  (zlen cs = 0 -> public_preflight m pi_len cs = Err E_EMPTY) /\
  (0 < zlen cs -> m < zlen cs -> public_preflight m pi_len cs = Err E_TOO_MANY) /\
  (forall k, public_preflight m pi_len cs = Err k -> k = E_BLOCK \/ k = E_ASSET \/ k = E_FEE \/ k = E_ALL_DUMMY ->
     0 < zlen cs <= m /\ forall c, In c cs -> zlen (c_pis c) = pi_len /\ c_ok c = true).
Proof.
  unfold public_preflight. pose proof (zlen_nonneg cs) as NN. split; [|split].
  - intros ->. reflexivity.
  - intros P L. assert ((zlen cs =? 0) = false) as B0 by (apply Z.eqb_neq; lia). rewrite B0. cbn [negb guard rbind].
    assert ((zlen cs <=? m) = false) as B1 by (apply Z.leb_gt; lia). rewrite B1. reflexivity.
  - intros k H K.
    destruct (zlen cs =? 0) eqn:B0; cbn [negb guard rbind] in H; [inversion H; subst k; unfold E_EMPTY, E_ASSET, E_BLOCK, E_FEE, E_ALL_DUMMY in K; lia|].
    destruct (zlen cs <=? m) eqn:B1; cbn [guard rbind] in H; [|inversion H; subst k; unfold E_TOO_MANY, E_ASSET, E_BLOCK, E_FEE, E_ALL_DUMMY in K; lia].
    apply Z.eqb_neq in B0. apply Z.leb_le in B1. split; [lia|].
    destruct (check_inner_children pi_len cs) as [[]|c] eqn:EC; cbn [rbind] in H.
    + apply check_inner_children_ok. exact EC.
    + inversion H; subst c. apply check_inner_children_err in EC.
      destruct EC as [E|E]; subst k; unfold E_PI_LEN, E_INVALID, E_ASSET, E_BLOCK, E_FEE, E_ALL_DUMMY in K; lia.
Qed.

(* ------------------------------------------------------------------------------------------------ *)
(** * Padding templates (C16) *)

Lemma reclass_ok {A} (r : res A) c a : reclass r c = Ok a <-> r = Ok a.
Proof. destruct r; cbn [reclass]; split; congruence. Qed.

Lemma sub_zero4_iff l a : (a + 4 <= length l)%nat ->
  (sub l a 4 = zero4 <-> forall k, (k < 4)%nat -> at_ l (a + k) = 0).
Proof.
  intro L. split.
  - intros E k Hk. rewrite <- (nth_sub l a 4 k Hk), E. unfold zero4. do 4 (destruct k as [|k]; [reflexivity|]). lia.
  - intro H. pose proof (length_sub l a 4 L) as Ls.
    pose proof (nth_sub l a 4 0 ltac:(lia)) as N0. pose proof (nth_sub l a 4 1 ltac:(lia)) as N1.
    pose proof (nth_sub l a 4 2 ltac:(lia)) as N2. pose proof (nth_sub l a 4 3 ltac:(lia)) as N3.
    rewrite H in N0, N1, N2, N3 by lia.
    destruct (sub l a 4) as [|x0 [|x1 [|x2 [|x3 [|x4 r]]]]]; cbn [length] in Ls; try lia.
    cbn [nth] in N0, N1, N2, N3. subst. reflexivity.
Qed.

(* the positions a leaf template is inspected at for the sentinel: asset, both outputs, both exit accounts, block hash *)
Definition leaf_inspected (i : nat) : Prop := (i <= 2)%nat \/ (8 <= i <= 19)%nat.

Lemma leaf_template_ok_iff t :
  leaf_template_check t = Ok tt <->
  wf_leaf (c_pis t) /\ (forall i, leaf_inspected i -> at_ (c_pis t) i = 0) /\ c_ok t = true.
Proof.
  unfold leaf_template_check. set (pis := c_pis t). split.
  - intro H. inv1 H. apply reclass_ok in E. apply leaf_accept_iff in E. destruct E as [W ->].
    cbn [l_bh l_out1 l_out2 l_asset l_exit1 l_exit2 layout_leaf] in H.
    invg H. invg H. invg H. invg H. apply guard_ok_inv in H.
    apply list_eqb_spec in G. apply andb_true_iff in G0, G2. destruct G0 as [O1 O2]. destruct G2 as [X1 X2].
    apply Z.eqb_eq in O1, O2, G1. apply list_eqb_spec in X1, X2.
    pose proof W as (L & _).
    rewrite sub_zero4_iff in G, X1, X2 by lia.
    split; [exact W|]. split; [|exact H].
    intros i [Hi|Hi].
    + destruct i as [|[|[|i]]]; try assumption. lia.
    + destruct (Nat.le_gt_cases i 11); [replace i with (8 + (i - 8))%nat by lia; apply X1; lia|].
      destruct (Nat.le_gt_cases i 15); [replace i with (12 + (i - 12))%nat by lia; apply X2; lia|].
      replace i with (16 + (i - 16))%nat by lia; apply G; lia.
  - intros (W & Z0 & V). pose proof W as (L & _).
    rewrite (proj2 (leaf_accept_iff pis (layout_leaf pis)) (conj W eq_refl)). cbn [reclass rbind].
    cbn [l_bh l_out1 l_out2 l_asset l_exit1 l_exit2 layout_leaf].
    assert (forall a, (8 <= a)%nat -> (a + 4 <= 20)%nat -> sub pis a 4 = zero4) as S.
    { intros a A1 A2. apply sub_zero4_iff; [lia|]. intros k Hk. apply Z0. right. lia. }
    rewrite (S 16%nat), (S 8%nat), (S 12%nat) by lia.
    rewrite (Z0 0%nat), (Z0 1%nat), (Z0 2%nat) by (left; lia).
    cbn. rewrite V. reflexivity.
Qed.

Lemma leaf_template_sentinel t : leaf_template_check t = Ok tt -> dummy_sentinel (c_pis t).
Proof.
  intro H. apply leaf_template_ok_iff in H. destruct H as (W & Z0 & _). destruct W as (L & _).
  split.
  - unfold is_dummy_pb. apply list_eqb_spec. change (lf_bh (c_pis t)) with (sub (c_pis t) 16 4).
    apply sub_zero4_iff; [lia|]. intros k Hk. apply Z0. right. lia.
  - change (lf_asset (c_pis t)) with (at_ (c_pis t) 0). apply Z0. left. lia.
Qed.

Lemma leaf_template_single_deviation t i :
  leaf_inspected i -> at_ (c_pis t) i <> 0 -> exists c, leaf_template_check t = Err c.
Proof.
  intros I N. destruct (leaf_template_check t) as [[]|c] eqn:E; [|exists c; reflexivity].
  apply leaf_template_ok_iff in E. destruct E as (_ & Z0 & _). exfalso. apply N. apply Z0. exact I.
Qed.
Lemma leaf_template_invalid_rejected t : c_ok t = false -> exists c, leaf_template_check t = Err c.
Proof.
  intro V. destruct (leaf_template_check t) as [[]|c] eqn:E; [|exists c; reflexivity].
  apply leaf_template_ok_iff in E. destruct E as (_ & _ & V'). congruence.
Qed.

(* private-batch templates *)
Lemma slots_check_ok ss : slots_check ss = Ok tt <-> Forall (fun s => s_sum s = 0 /\ s_account s = zero4) ss.
Proof.
  induction ss as [|s r IH]; cbn [slots_check].
  - split; [constructor|reflexivity].
  - split.
    + intro H. invg H. invg H. apply Z.eqb_eq in G. apply list_eqb_spec in G0. constructor; [split; assumption|apply IH; exact H].
    + intro F. inversion F as [|x xs [S A] F']; subst. rewrite S, A. cbn. apply IH. exact F'.
Qed.

(* header block hash 3..6 and the whole exit-slot region 8 .. 8+10n-1 *)
Definition priv_inspected (n i : nat) : Prop := (3 <= i <= 6)%nat \/ (8 <= i < 8 + 10 * n)%nat.

Lemma slots_zero_iff l n : (8 + 10 * n <= length l)%nat ->
  (Forall (fun s => s_sum s = 0 /\ s_account s = zero4) (slots_at l 8 (2 * n)) <->
   forall i, (8 <= i < 8 + 10 * n)%nat -> at_ l i = 0).
Proof.
  intro L. rewrite Forall_forall. split.
  - intros H i Hi.
    set (j := ((i - 8) / 5)%nat). set (r := ((i - 8) mod 5)%nat).
    assert (i = 8 + 5 * j + r /\ r < 5 /\ j < 2 * n)%nat as (Ei & Hr & Hj).
    { subst j r. pose proof (Nat.div_mod (i - 8) 5 ltac:(lia)). pose proof (Nat.mod_upper_bound (i - 8) 5 ltac:(lia)).
      split; [lia|]. split; [lia|]. apply Nat.div_lt_upper_bound; lia. }
    assert (In (nth j (slots_at l 8 (2 * n)) (mkSlot 0 [])) (slots_at l 8 (2 * n))) as I
      by (apply nth_In; rewrite slots_at_length; exact Hj).
    specialize (H _ I). rewrite slots_at_nth in H by exact Hj. cbn [s_sum s_account] in H. destruct H as [HSm A].
    destruct r as [|r].
    + rewrite Ei. replace (8 + 5 * j + 0)%nat with (8 + 5 * j)%nat by lia. exact HSm.
    + rewrite sub_zero4_iff in A by lia. rewrite Ei. replace (8 + 5 * j + S r)%nat with (8 + 5 * j + 1 + r)%nat by lia. apply A. lia.
  - intros H s I. destruct (In_nth _ _ (mkSlot 0 []) I) as (j & Hj & <-). rewrite slots_at_length in Hj.
    rewrite slots_at_nth by exact Hj. cbn [s_sum s_account]. split; [apply H; lia|].
    apply sub_zero4_iff; [lia|]. intros k Hk. apply H. lia.
Qed.

Lemma private_batch_template_ok_iff t :
  private_batch_template_check t = Ok tt <->
  exists n, wf_priv n (c_pis t) /\ (forall i, priv_inspected n i -> at_ (c_pis t) i = 0) /\ c_ok t = true.
Proof.
  unfold private_batch_template_check. set (pis := c_pis t). split.
  - intro H. inv1 H. apply reclass_ok in E. apply priv_accept_iff in E. destruct E as (n & W & ->).
    cbn [pb_bh pb_slots layout_priv] in H. invg H. inv1 H. destruct v. apply guard_ok_inv in H.
    apply list_eqb_spec in G. pose proof (proj1 (slots_check_ok _) E) as SZ.
    pose proof W as (Rn & L & _).
    rewrite sub_zero4_iff in G by lia. rewrite slots_zero_iff in SZ by lia.
    exists n. split; [exact W|]. split; [|exact H].
    intros i [Hi|Hi]; [replace i with (3 + (i - 3))%nat by lia; apply G; lia|apply SZ; exact Hi].
  - intros (n & W & Z0 & V). pose proof W as (Rn & L & _).
    assert (parse_priv_u64 pis = Ok (layout_priv n pis)) as P by (apply priv_accept_iff; exists n; split; [exact W|reflexivity]).
    rewrite P. cbn [reclass rbind pb_bh pb_slots layout_priv].
    assert (sub pis 3 4 = zero4) as B by (apply sub_zero4_iff; [lia|]; intros k Hk; apply Z0; left; lia).
    rewrite B. cbn [list_eqb zero4 Z.eqb andb guard rbind].
    assert (slots_check (slots_at pis 8 (2 * n)) = Ok tt) as SC.
    { apply slots_check_ok. apply slots_zero_iff; [lia|]. intros i Hi. apply Z0. right. exact Hi. }
    rewrite SC. cbn [rbind]. rewrite V. reflexivity.
Qed.

Lemma private_batch_template_sentinel t : private_batch_template_check t = Ok tt -> is_dummy_inner (c_pis t) = true.
Proof.
  intro H. apply private_batch_template_ok_iff in H. destruct H as (n & W & Z0 & _). destruct W as (Rn & L & _).
  unfold is_dummy_inner. apply list_eqb_spec. change (in_bh (c_pis t)) with (sub (c_pis t) 3 4).
  apply sub_zero4_iff; [lia|]. intros k Hk. apply Z0. left. lia.
Qed.

Lemma private_batch_template_single_deviation t n i :
  length (c_pis t) = (8 + 21 * n)%nat -> priv_inspected n i -> at_ (c_pis t) i <> 0 ->
  exists c, private_batch_template_check t = Err c.
Proof.
  intros L I N. destruct (private_batch_template_check t) as [[]|c] eqn:E; [|exists c; reflexivity].
  apply private_batch_template_ok_iff in E. destruct E as (n' & W & Z0 & _). destruct W as (_ & L' & _).
  assert (n' = n) by lia. subst n'. exfalso. apply N. apply Z0. exact I.
Qed.
Lemma private_batch_template_invalid_rejected t : c_ok t = false -> exists c, private_batch_template_check t = Err c.
Proof.
  intro V. destruct (private_batch_template_check t) as [[]|c] eqn:E; [|exists c; reflexivity].
  apply private_batch_template_ok_iff in E. destruct E as (_ & _ & _ & V'). congruence.
Qed.

(* ------------------------------------------------------------------------------------------------ *)
(** * Exactness: commit admits exactly (policy) /\ (the circuit can prove the padded batch) *)

Lemma private_accept_iff n cs t : dummy_sentinel t ->
  (private_commit_preflight n cs = Ok tt <->
   0 < zlen cs <= n /\
   (forall c, In c cs -> zlen (c_pis c) = PR_LEAF_PI_LEN /\ c_ok c = true) /\
   (exists c, In c cs /\ is_real_pb (c_pis c) = true) /\
   priv_compat (padded n (map c_pis cs) t) = true).
Proof.
  intro Dt. split.
  - intro H. pose proof (private_accept_compat_spec n cs t H Dt) as CS.
    apply private_preflight_ok_iff in H. destruct H as (R & HC & (_ & _ & _ & (m & Im & Rm)) & _).
    split; [exact R|]. split; [intros c I; destruct (HC c I) as (L & V & _); auto|].
    split; [|apply priv_compat_iff; exact CS].
    apply in_map_iff in Im. destruct Im as (c & <- & I). exists c. auto.
  - intros (R & HC & (c0 & I0 & R0) & PC). apply priv_compat_iff in PC.
    destruct (compat_spec_prefix _ _ _ PC Dt) as (PA & PB & PN & PS). destruct PC as ((A & HA) & _). destruct Dt as [Dt At].
    apply private_preflight_ok_iff. split; [exact R|]. split; [|split; [|exact PS]].
    + intros c I. destruct (HC c I) as (L & V). split; [exact L|]. split; [exact V|]. intro Lt.
      assert (In (c_pis c) (padded n (map c_pis cs) t)) as I1 by (unfold padded; apply in_or_app; left; apply in_map; exact I).
      assert (In t (padded n (map c_pis cs) t)) as I2.
      { unfold padded. apply in_or_app. right. rewrite zlen_map. destruct (Z.to_nat (n - zlen cs)) eqn:E; [lia|]. left. reflexivity. }
      rewrite (HA _ I1), <- (HA _ I2). exact At.
    + split; [exact PA|]. split; [exact PB|]. split; [exact PN|]. exists (c_pis c0). split; [apply in_map; exact I0|exact R0].
Qed.

Lemma public_accept_iff m pi_len cs t : is_dummy_inner t = true ->
  (public_preflight m pi_len cs = Ok tt <->
   0 < zlen cs <= m /\
   (forall c, In c cs -> zlen (c_pis c) = pi_len /\ c_ok c = true) /\
   (exists c, In c cs /\ is_real_inner (c_pis c) = true) /\
   pub_compat (padded m (map c_pis cs) t) = true).
Proof.
  intro Dt. rewrite public_preflight_ok_iff, pub_compat_iff, (padded_pub_spec m (map c_pis cs) t Dt). split.
  - intros (R & HC & PS & (x & Ix & Rx)). split; [exact R|]. split; [exact HC|]. split; [|exact PS].
    apply in_map_iff in Ix. destruct Ix as (c & <- & I). exists c. auto.
  - intros (R & HC & (c & I & Rc) & PS). split; [exact R|]. split; [exact HC|]. split; [exact PS|].
    exists (c_pis c). split; [apply in_map; exact I|exact Rc].
Qed.
